"""C02 - requests are well-formed memcached commands; arguments cannot inject.

Layer A (h_misc, h_store): key, value, prefix *content* symbolic (every byte value) through the call sites that do
  not hash the key: delete, delete_many, incr, decr, touch (public API) and _store_cmd for all six verbs driven
  through a non-hashing Mapping.  Oracle: MemcacheIllegalInputError with nothing connected/sent, or the bytes
  handed to sendall() equal the canonical wire form of the intended command(s) built independently from the
  arguments (vkit/strict.build semantics; strict.parse(build(c)) == c is validated at setup) with a legal key.
Layer B (h_hashing): the dict-building sites (set..cas, set_many, get.., get_many.., gat(s)) hash the caller's key,
  so key content is solver-enumerated over a 12-class byte alphabet; the recorded wire is parsed by the strict
  parser (untraced) and must yield exactly the intended commands; one illegal member => nothing sent.
Layer C (h_ints): integer arguments: symbolic over 0..99 and the protocol-range boundaries, non-integers rejected
  before any send.
"""
import decimal

from harness.common import SHARD, concretize, bit, load_known, legal_wire_key, same_bytes, utf8_of
from vkit import strict
from vkit.net import notrace
from vkit.stats import VIOL, SKIP, OK, ok, skip, viol

from pymemcache.client.base import Client, PooledClient
from pymemcache.client.hash import HashClient
from pymemcache.exceptions import MemcacheIllegalInputError

PROP = "C02"
FUNCTIONS = ["pymemcache.client.base:check_key_helper", "pymemcache.client.base:Client._store_cmd",
             "pymemcache.client.base:Client._fetch_cmd", "pymemcache.client.base:Client._misc_cmd",
             "pymemcache.client.base:Client._check_integer", "pymemcache.client.base:Client._check_cas",
             "pymemcache.client.base:Client.delete", "pymemcache.client.base:Client.delete_many",
             "pymemcache.client.base:Client.incr", "pymemcache.client.base:Client.decr", "pymemcache.client.base:Client.touch",
             "pymemcache.client.base:Client.set", "pymemcache.client.base:Client.set_many", "pymemcache.client.base:Client.cas",
             "pymemcache.client.base:Client.get", "pymemcache.client.base:Client.get_many", "pymemcache.client.base:Client.gat",
             "pymemcache.client.base:Client.flush_all", "pymemcache.client.hash:HashClient._get_client"]
KNOWN = load_known(PROP)

KL = SHARD.get("kl", 1)
PL = SHARD.get("pl", 0)
VL = SHARD.get("vl", 1)
OP = SHARD.get("op", "delete")
STACK = SHARD.get("stack", "client")
POS = SHARD.get("pos", 0)
UNI = SHARD.get("unicode", False)
ENC = SHARD.get("encoding", "ascii")
FILL = SHARD.get("fill", 0)
PFILL = SHARD.get("pfill", 0)
ALPHA = (0, 9, 10, 11, 12, 13, 0x1C, 32, 97, 127, 128, 255)


class Stop(Exception):
    pass


class RecSock:
    def __init__(self, net):
        self.net = net

    def settimeout(self, t):
        pass

    def setsockopt(self, *a):
        pass

    def connect(self, a):
        self.net.events.append("connect")

    def close(self):
        pass

    def sendall(self, data):
        self.net.events.append("sendall")
        self.net.sent.append(data)
        if self.net.stop:
            raise Stop()

    def recv(self, n):
        raise Stop()


class RecNet:
    AF_UNIX, AF_INET, AF_UNSPEC, SOCK_STREAM, IPPROTO_TCP, TCP_NODELAY = 1, 2, 0, 1, 6, 1

    def __init__(self, stop=True):
        self.events = []
        self.sent = []
        self.stop = stop

    def socket(self, *a):
        return RecSock(self)

    def getaddrinfo(self, host, port, *a):
        return [(2, 1, 6, "", (host, port))]


class Items:
    """non-hashing stand-in for the `values` mapping of _store_cmd (only .items() is used)"""

    def __init__(self, pairs):
        self.pairs = pairs

    def items(self):
        return list(self.pairs)


def _client(net, prefix, **kw):
    return Client(("h", 1), socket_module=net, key_prefix=prefix, allow_unicode_keys=UNI, encoding=ENC, **kw)


def _known_empty(full):
    return "C02-empty-key" in KNOWN and len(full) == 0


def _num(n):
    """decimal rendering of a small non-negative symbolic int as a list of byte values (arithmetic only)"""
    if n < 10:
        return [48 + n]
    if n < 100:
        return [48 + n // 10, 48 + n % 10]
    return [48 + n // 100, 48 + (n // 10) % 10, 48 + n % 10]


def _tok(b):
    return list(b)


def h_misc(key: bytes, prefix: bytes, nr: int, num: int, other: bytes) -> int:
    """
    delete / delete_many / incr / decr / touch with a symbolic key (every byte value), symbolic prefix, symbolic
    noreply, a symbolic small integer argument.
    pre: len(key) <= KL and len(prefix) <= PL and len(other) == 1
    pre: 0 <= nr <= 2
    pre: 0 <= num <= 3
    post: _ != 0
    """
    net = RecNet()
    c = _client(net, prefix)
    noreply = (None, True, False)[concretize(nr, 0, 2)]
    kw = {} if noreply is None else {"noreply": noreply}
    full = list(prefix) + list(key)
    if _known_empty(full):
        return skip("known-finding-region")
    keys = [key]
    if OP == "delete_many":
        keys = [b"a", b"bb"]
        keys.insert(POS, key)
    if OP in ("delete", "delete_many", "touch"):
        eff = True if noreply is None else noreply
    else:
        eff = False if noreply is None else noreply
    # the integer argument: the solver picks among 4 candidates (layer C decides the digits of 0..99 and boundaries)
    num = (0, 7, 42, 99)[concretize(num, 0, 3)]
    numb = bytes(_num(num))
    if OP == "delete":
        want = [b"delete " + prefix + key]
    elif OP == "delete_many":
        want = [b"delete " + prefix + k for k in keys]
    elif OP in ("incr", "decr"):
        want = [OP.encode() + b" " + prefix + key + b" " + numb]
    else:
        want = [b"touch " + prefix + key + b" " + numb]
    try:
        if OP == "delete":
            c.delete(key, **kw)
        elif OP == "delete_many":
            c.delete_many(keys, **kw)
        elif OP in ("incr", "decr"):
            getattr(c, OP)(key, num, **kw)
        else:
            c.touch(key, num, **kw)
    except MemcacheIllegalInputError:
        if net.events:
            return viol(OP, "raised MemcacheIllegalInputError after", net.events, "key", key, "prefix", prefix)
        if legal_wire_key(full):
            return viol(OP, "rejected the legal key", key, "prefix", prefix)
        return ok("rejected")
    except Stop:
        pass
    except Exception as e:
        return viol(OP, "raised", type(e).__name__, "for key", key)
    if not legal_wire_key(full):
        return viol(OP, "sent a command for the illegal prefixed key", bytes(full), "->", net.sent)
    if len(net.sent) != 1:
        return viol(OP, "sendall calls:", len(net.sent))
    exp = b""
    for w in want:
        exp = exp + w + (b" noreply" if eff else b"") + b"\r\n"
    if net.sent[0] != exp:
        return viol(OP, "wire", net.sent[0], "expected", exp)
    return ok("sent")


VERBS = (b"set", b"add", b"replace", b"append", b"prepend", b"cas")


def h_store(key: bytes, value: bytes, prefix: bytes, noreply: bool, flags: int, expire: int, verb: int) -> int:
    """
    _store_cmd for the six storage verbs through a non-hashing Mapping: key, value, prefix content symbolic.
    pre: len(key) == KL and len(value) <= VL and len(prefix) == PL
    pre: 0 <= flags <= 2 and flags == expire
    pre: 0 <= verb <= 5
    post: _ != 0
    """
    net = RecNet()
    c = _client(net, prefix)
    name = VERBS[concretize(verb, 0, 5)]
    # rendered symbolic ints go through z3's str.from_int (measured: stalls); the solver picks among distinct
    # candidates instead, which still decides which argument lands in which field (layer C covers the digits)
    flags = (0, 7, 42)[concretize(flags, 0, 2)]
    expire = (0, 5, 60)[concretize(expire, 0, 2)]
    full = list(prefix) + list(key)
    if _known_empty(full):
        return skip("known-finding-region")
    pairs = [(b"a", b"x"), (b"bb", b"yy")][:SHARD.get("n_other", 0)]
    pairs.insert(min(POS, len(pairs)), (key, value))
    cas = b"77" if name == b"cas" else None
    try:
        c._store_cmd(name, Items(pairs), expire, noreply, flags=flags, cas=cas)
    except MemcacheIllegalInputError:
        if net.events:
            return viol(name, "raised MemcacheIllegalInputError after", net.events)
        if legal_wire_key(full):
            return viol(name, "rejected the legal key", key, "prefix", prefix)
        return ok("rejected")
    except Stop:
        pass
    except Exception as e:
        return viol(name, "raised", type(e).__name__)
    if not legal_wire_key(full):
        return viol(name, "sent a command for the illegal prefixed key", bytes(full))
    if len(net.sent) != 1:
        return viol(name, "sendall calls:", len(net.sent))
    exp = b""
    for k, v in pairs:
        exp = exp + name + b" " + prefix + k + b" %d %d %d" % (flags, expire, len(v))
        if cas is not None:
            exp = exp + b" " + cas
        if noreply:
            exp = exp + b" noreply"
        exp = exp + b"\r\n" + v + b"\r\n"
    if net.sent[0] != exp:
        return viol(name, "wire", net.sent[0], "expected", exp)
    return ok("sent")


def h_store_str(value: str, noreply: bool, verb: int, other: int) -> int:
    """
    str values (no serde): the data block is the value encoded with the client's encoding, the announced length is the
    length of that block in bytes; a value the encoding cannot express is rejected before anything is written.
    pre: len(value) <= VL
    pre: 0 <= verb <= 5
    pre: 0 <= other <= 1
    post: _ != 0
    """
    cps = []
    for ch in value:
        cp = ord(ch)
        if 0xD800 <= cp and cp <= 0xDFFF:
            return skip("surrogate")
        cps.append(cp)
    limit = {"ascii": 128, "latin-1": 256}.get(ENC)
    if limit is None:
        enc = utf8_of(cps)
    else:
        enc = list(cps)
        for cp in cps:
            if cp >= limit:
                enc = None
    net = RecNet()
    c = _client(net, b"")
    name = VERBS[concretize(verb, 0, 5)]
    cas = b"77" if name == b"cas" else None
    pairs = [(b"k", value)] + [(b"z", b"tail")][:concretize(other, 0, 1)]
    try:
        c._store_cmd(name, Items(pairs), 0, noreply, flags=0, cas=cas)
    except MemcacheIllegalInputError:
        if net.events:
            return viol(name, "raised MemcacheIllegalInputError after", net.events)
        if enc is not None:
            return viol(name, "rejected a value that", ENC, "can express")
        return ok("rejected")
    except Stop:
        pass
    except Exception as e:
        return viol(name, "raised", type(e).__name__)
    if enc is None:
        return viol(name, "sent a value that", ENC, "cannot express")
    if len(net.sent) != 1:
        return viol(name, "sendall calls:", len(net.sent))
    tail = (b" " + cas if cas is not None else b"") + (b" noreply" if noreply else b"") + b"\r\n"
    head = name + b" k 0 0 " + (b"%d" % len(enc)) + tail           # len(enc) is concrete on every path
    rest = b"\r\n"
    if len(pairs) == 2:
        rest = rest + name + b" z 0 0 4" + tail + b"tail\r\n"
    wire = net.sent[0]
    if len(wire) != len(head) + len(enc) + len(rest) or wire[:len(head)] != head or wire[len(head) + len(enc):] != rest \
            or not same_bytes(wire[len(head):len(head) + len(enc)], enc):
        return viol(name, ENC, "value of", len(cps), "code points /", len(enc), "bytes: header or data block differ from",
                    head, "+ encoded value +", rest)
    return ok("sent")


# ---------------------------------------------------------------------------------------------- layer B

def _mk_stack(net, prefix):
    kw = dict(socket_module=net, key_prefix=prefix, allow_unicode_keys=UNI, encoding=ENC, default_noreply=False)
    if STACK == "client":
        return Client(("h", 1), **kw)
    if STACK == "pooled":
        return PooledClient(("h", 1), **kw)
    return HashClient([("h", 1)], **kw)


HOPS = ("set", "add", "cas", "set_many", "get", "gets", "get_many", "gets_many", "gat", "gats", "append", "replace", "prepend",
        "set_many_big", "delete_many_big")
BIG = b"x" * 300000


def h_hashing(i1: int, i2: int, i3: int, n: int, p: int, pos: int, isstr: bool) -> int:
    """
    Operations that put the caller's key into a dict: key content enumerated by the solver over a 12-class byte
    alphabet (length n in 0..3), prefix over the same alphabet (length p in 0..1), wire parsed by the strict parser.
    pre: 0 <= i1 < 12 and 0 <= i2 < 12 and 0 <= i3 < 12
    pre: 0 <= n <= KL
    pre: 0 <= p <= PL
    pre: 0 <= pos <= 2
    post: _ != 0
    """
    n = concretize(n, 0, KL)
    p = concretize(p, 0, PL)
    idx = [concretize(i1, 0, 11), concretize(i2, 0, 11) if n >= 2 else 0, concretize(i3, 0, 11) if n >= 3 else 0]
    if (n < 1 and idx[0] != 0) or p not in (0, 1):
        return skip("canonical")
    kb = bytes(ALPHA[i] for i in idx[:n])
    prefix = b"P"[:p] if not SHARD.get("sym_prefix") else bytes([ALPHA[idx[2]]])[:p]
    key = kb
    if isstr:
        # a str key: the same byte values read as UTF-8 (unicode keys enabled) or as Latin-1 code points
        try:
            key = kb.decode("utf8" if UNI else "latin1")
        except UnicodeDecodeError:
            return skip("not-a-str-key")
        if not UNI:
            for ch in kb:
                if ch >= 128:
                    kb = None   # non-ASCII str key with unicode keys disabled: must be rejected
                    break
    pos = concretize(pos, 0, 2)
    with notrace():
        return _hashing_concrete(key, kb, prefix, pos)


def _hashing_concrete(key, kb, prefix, pos):
    net = RecNet(stop=False)
    c = _mk_stack(net, prefix)
    full = prefix + kb if kb is not None else None
    if full is not None and _known_empty(full):
        return skip("known-finding-region")
    legal = full is not None and legal_wire_key(full)
    others = ["a", b"bb"]
    keys = list(others)
    keys.insert(pos, key)
    P = prefix
    name = OP
    C = strict.Cmd
    def enc(k):
        return k.encode("utf8") if isinstance(k, str) else k

    if name in ("set_many", "set_many_big") and key in others:
        return skip("duplicate-key")
    if name == "delete_many_big":
        keys = ["k%04d" % i for i in range(6000)]
        keys.insert((0, 3000, 6000)[pos], key)
    if full is None:
        want = None
    elif name == "set_many_big":
        want = [C(b"set", [P + enc(k)], flags=0, exptime=3, data=BIG) for k in keys]
    elif name == "delete_many_big":
        want = [C(b"delete", [P + enc(k)]) for k in keys]
    elif name in ("set", "add", "append", "replace", "prepend"):
        want = [C(name.encode(), [full], flags=5, exptime=7, data=b"v\r\nx")]
    elif name == "cas":
        want = [C(b"cas", [full], flags=1, exptime=0, data=b"vv", cas=123)]
    elif name == "set_many":
        want = [C(b"set", [P + enc(k)], flags=0, exptime=3, data=b"d") for k in keys]
    elif name in ("get", "gets"):
        want = [C(name.encode(), [full])]
    elif name in ("get_many", "gets_many"):
        want = [C(name[:-5].encode(), [P + enc(k) for k in keys])]
    else:
        want = [C(name.encode(), [full], exptime=9)]
    try:
        if name in ("set", "add", "append", "replace", "prepend"):
            getattr(c, name)(key, b"v\r\nx", expire=7, flags=5)
        elif name == "cas":
            c.cas(key, b"vv", "123", expire=0, flags=1)
        elif name == "set_many":
            c.set_many(dict((k, b"d") for k in keys), expire=3)
        elif name == "set_many_big":
            c.set_many(dict((k, BIG) for k in keys), expire=3)
        elif name == "delete_many_big":
            c.delete_many(keys, noreply=False)
        elif name in ("get", "gets"):
            getattr(c, name)(key)
        elif name in ("get_many", "gets_many"):
            getattr(c, name)(keys)
        else:
            getattr(c, name)(key, expire=9)
    except MemcacheIllegalInputError:
        if net.events:
            return viol(STACK, name, "raised MemcacheIllegalInputError after", net.events, "key", repr(key), "keys", keys)
        if legal:
            return viol(STACK, name, "rejected the legal key", repr(key), "prefix", prefix)
        return ok("rejected")
    except Stop:
        pass
    except Exception as e:
        return viol(STACK, name, "raised", type(e).__name__, e, "for key", repr(key))
    if not legal:
        return viol(STACK, name, "sent", net.sent, "for the illegal prefixed key", full)
    wire = b"".join(net.sent)
    try:
        got = strict.parse(wire)
    except strict.ParseError as e:
        return viol(STACK, name, "wire", wire, "is not a well-formed request:", e)
    if STACK == "hash" and name == "delete_many_big":
        return ok("sent")   # HashClient.delete_many sends key by key by design (the atomicity clause names Client/PooledClient)
    if STACK == "hash" and name in ("set_many", "get_many", "gets_many", "set_many_big"):
        got = sorted(got, key=repr)
        want_cmp = sorted(want, key=repr)
        if name not in ("set_many", "set_many_big"):   # one get per server batch: with one server still a single command
            want_cmp = want
    else:
        want_cmp = want
    if got != want_cmp:
        return viol(STACK, name, "wire", wire, "parsed as", got, "expected", want_cmp)
    return ok("sent")


# ---------------------------------------------------------------------------------------------- layer C

BOUNDARY = (0, 1, 99, 100, 2 ** 31, 2 ** 32 - 1, 2 ** 32, 2 ** 63 - 1, 2 ** 63, 2 ** 64 - 1, -1, -(2 ** 63))
NONINTS = (1.5, "7", None, decimal.Decimal(3), b"7", [1], "\u0661\u0662\u0663", "\uff17", "\u00b2")


def h_ints(which: int, n: int, b: int, bad: int, useb: bool) -> int:
    """
    Integer arguments (flags, expire, delta, delay, cas): symbolic over 0..99, protocol-range boundaries by symbolic
    index, non-integers rejected before anything is sent.
    pre: 0 <= which <= 7
    pre: 0 <= n <= 99
    pre: 0 <= b < 12
    pre: -1 <= bad < 9
    post: _ != 0
    """
    which = concretize(which, 0, 7)
    bad = concretize(bad, -1, 8)
    net = RecNet()
    c = _client(net, b"")
    if useb:
        n = BOUNDARY[concretize(b, 0, 11)]
    val = NONINTS[bad] if bad >= 0 else n
    isint = bad < 0
    if isint:
        # the property quantifies over integers *within the protocol's ranges*
        lo, hi = ((-(2 ** 63), 2 ** 63 - 1) if which in (0, 4, 6) else (0, 2 ** 32 - 1) if which == 1
                  else (0, 2 ** 63 - 1) if which == 5 else (0, 2 ** 64 - 1))
        if not (lo <= val and val <= hi):
            return skip("outside-protocol-range")
    tmpl = (b"set k 0 %d 1\r\nv\r\n", b"set k %d 0 1\r\nv\r\n", b"incr k %d\r\n", b"decr k %d\r\n", b"touch k %d\r\n",
            b"flush_all %d\r\n", b"gat %d k\r\n", b"cas k 0 0 1 %d\r\nv\r\n")[which]
    exp = tmpl % val if isint else None
    if which == 1 and val is None:
        exp = b"set k 0 0 1\r\nv\r\n"       # flags=None means "use the serializer's flags"
    if which == 7 and bad in (1, 4):
        exp = b"cas k 0 0 1 7\r\nv\r\n"     # digit strings / bytes are documented cas inputs
    try:
        if which == 0:
            c.set("k", b"v", expire=val, noreply=False)
        elif which == 1:
            c.set("k", b"v", flags=val, noreply=False)
        elif which == 2:
            c.incr("k", val)
        elif which == 3:
            c.decr("k", val)
        elif which == 4:
            c.touch("k", val, noreply=False)
        elif which == 5:
            c.flush_all(val, noreply=False)
        elif which == 6:
            c.gat("k", val)
        else:
            c.cas("k", b"v", val, noreply=False)
    except MemcacheIllegalInputError:
        if net.events:
            return viol("argument", which, "value", repr(val), ": input error after", net.events)
        if exp is not None:
            return viol("argument", which, "integer", repr(val), "rejected")
        return ok("rejected")
    except Stop:
        pass
    except Exception as e:
        if exp is None and not net.events and which == 1 and not isint:
            return viol("flags", repr(val), "raised", type(e).__name__, "instead of an input error")
        return viol("argument", which, "value", repr(val), "raised", type(e).__name__)
    if exp is None:
        return viol("argument", which, "non-integer", repr(val), "was sent:", net.sent)
    if len(net.sent) != 1 or not same_bytes(net.sent[0], list(exp)):
        return viol("argument", which, "value", val, "wire", net.sent, "expected", exp)
    return ok("sent")


def h_boundary(s: bytes, nr: bool) -> int:
    """
    Long keys through delete: concrete filler with two symbolic bytes (first, last); total length around 250.
    pre: len(s) == 2
    post: _ != 0
    """
    net = RecNet()
    prefix = b"p" * PFILL
    c = _client(net, prefix)
    key = s[0:1] + b"k" * FILL + s[1:2]
    full = list(prefix) + list(key)
    try:
        c.delete(key, noreply=nr)
    except MemcacheIllegalInputError:
        if net.events:
            return viol("delete raised the input error after", net.events)
        if legal_wire_key(full):
            return viol("delete rejected a legal key of", len(full), "bytes")
        return ok("rejected")
    except Stop:
        pass
    if not legal_wire_key(full):
        return viol("delete sent an illegal key of", len(full), "bytes")
    exp = b"delete " + prefix + key + (b" noreply" if nr else b"") + b"\r\n"
    if len(net.sent) != 1 or net.sent[0] != exp:
        return viol("wire", net.sent, "expected", exp)
    return ok("sent")


def shards(tier):
    S = []
    thorough = tier == "thorough"
    T = 1500 if thorough else 400
    for op in ("delete", "incr", "decr", "touch"):
        for kl, pl in ((2, 0), (1, 1), (2, 1)) + (((3, 0), (3, 1), (2, 2)) if thorough else ()):
            S.append(dict(fn="h_misc", timeout=T, shard=dict(op=op, kl=kl, pl=pl)))
    for pos in (0, 1, 2):
        for kl, pl in ((2, 0), (1, 1)) + (((3, 0), (2, 1)) if thorough else ()):
            S.append(dict(fn="h_misc", timeout=T, shard=dict(op="delete_many", kl=kl, pl=pl, pos=pos)))
    for kl, vl, pl in ((1, 1, 1), (2, 2, 0), (2, 3, 1)) + (((3, 4, 1), (2, 4, 2)) if thorough else ()):
        S.append(dict(fn="h_store", timeout=T, shard=dict(kl=kl, vl=vl, pl=pl, n_other=0)))
    for pos in (0, 1, 2):
        S.append(dict(fn="h_store", timeout=T, shard=dict(kl=1, vl=1, pl=0, n_other=2, pos=pos)))
        if thorough:
            S.append(dict(fn="h_store", timeout=T, shard=dict(kl=2, vl=2, pl=1, n_other=2, pos=pos)))
    for enc in ("utf8", "latin-1", "ascii"):
        S.append(dict(fn="h_store_str", timeout=T, shard=dict(vl=3 if thorough else 2, encoding=enc)))
    for st in ("client", "pooled", "hash"):
        for op in HOPS:
            if st == "hash" and op == "delete_many_big":
                continue
            if not thorough and st != "client" and op not in ("set", "set_many", "get_many", "gat", "cas", "set_many_big"):
                continue
            for uni in (False, True):
                if uni and not (thorough or op in ("set", "get_many")):
                    continue
                S.append(dict(fn="h_hashing", timeout=T, shard=dict(stack=st, op=op, kl=3 if thorough else 2, pl=1,
                                                                    unicode=uni, encoding="utf8" if uni else "ascii")))
    S.append(dict(fn="h_ints", timeout=T, shard={}))
    S.append(dict(fn="h_ints", timeout=T, shard=dict(encoding="utf8", unicode=True)))
    S.append(dict(fn="h_ints", timeout=T, shard=dict(encoding="latin-1")))
    for total in (249, 250, 251):
        for pf in (0, 1, 125):
            S.append(dict(fn="h_boundary", timeout=T, shard=dict(fill=total - pf - 2, pfill=pf)))
    return S


BOUNDS = {
    "quick": "layer A: key <= 2 symbolic bytes x prefix <= 1 symbolic byte (all 256 values each), symbolic noreply and small "
             "ints, for delete/incr/decr/touch, delete_many (symbolic key at each of 3 positions) and _store_cmd for the six "
             "verbs (value <= 3 symbolic bytes, 1 or 3 items), str values of <= 2 symbolic code points under utf8 / latin-1 / "
             "ascii (announced length == encoded length, unencodable rejected before any byte is written); layer B: 13 dict-building operations on Client (5 on "
             "PooledClient/HashClient), keys of length 0..2 over a 12-class byte alphabet as bytes and str, prefix 0..1 byte, "
             "symbolic position in a 3-key call, strict-parser oracle; layer C: 8 integer arguments over 0..99 (symbolic), 12 "
             "protocol-range boundaries, 6 non-integer values; long keys 249..251 with 2 symbolic bytes",
    "thorough": "keys up to 3 symbolic bytes, prefix up to 2, values up to 4, layer B with 3-byte keys and unicode keys on all "
                "stacks",
}
OUTSIDE = ("key content beyond 3 symbolic bytes (C20 covers 4) and beyond the 12-class alphabet at the hashing call sites; "
           "values longer than 4 symbolic bytes (C04); bool integer arguments (an int subclass rendered as True/False: "
           "undecided, not asserted either way)")
ASSUMPTIONS = ["a recording socket_module ends each path at the first sendall (error paths end after the check they guard)",
               "_store_cmd is driven through a Mapping stand-in that does not hash the key (Client.set builds a dict, which "
               "would realize the key)",
               "the expected wire form is built independently from the arguments; strict.parse(strict.build(c)) == c and "
               "the strict parser's rejections are validated at setup"]
RULE = ("one path = one (key/value/prefix content class, noreply, argument class) combination; non-trivial when the call "
        "ended in an input error with nothing sent or in a sendall whose bytes were compared with the intended command")
