"""C10 - asynchronous interruption cannot desynchronise a client or leak a pool slot.

Same driver and ownership oracle as C01; the fault is a BaseException (KeyboardInterrupt, SystemExit, a
gevent-style BaseException subclass) raised from inside socket call number `fat` of the history.
"""
from harness.common import SHARD, concretize, load_known
from harness import ops
from vkit.net import FaultPlan, Interrupt, F_TIMEOUT
from vkit.stats import VIOL, SKIP, OK, ok, skip, viol
from vkit import clock as vclock

from pymemcache.client.base import PooledClient

PROP = "C10"
FUNCTIONS = [
    "pymemcache.client.base:Client._store_cmd", "pymemcache.client.base:Client._misc_cmd",
    "pymemcache.client.base:Client._fetch_cmd", "pymemcache.client.base:Client._connect",
    "pymemcache.pool:ObjectPool.get_and_release", "pymemcache.pool:ObjectPool.get", "pymemcache.pool:ObjectPool.destroy",
    "pymemcache.pool:ObjectPool.release", "pymemcache.client.hash:HashClient._safely_run_func",
]
KNOWN = load_known(PROP)

STACK = SHARD.get("stack", "client")
OP1 = SHARD.get("op1", "set")
FOLLOW = tuple(SHARD.get("follow", ("get", "set")))
MAXF = SHARD.get("maxf", 12)
NSERV = 2 if STACK == "hash2" else 1
IDLE = SHARD.get("idle", False)     # pooled stacks with pool_idle_timeout=1 and 3 time units between calls: the next call
                                    # retires the idle connection (close() inside ObjectPool.get) before it does anything else
EXCS = (KeyboardInterrupt, SystemExit, Interrupt)


def _pools(client):
    if isinstance(client, PooledClient):
        return [client.client_pool]
    out = []
    for c in getattr(client, "clients", {}).values():
        if isinstance(c, PooledClient):
            out.append(c.client_pool)
    return out


def _after(k, name, outcome, net, client):
    for p in _pools(client):
        if len(p.used) != 0:
            return "after call %d (%s, outcome %s) %d pooled connection(s) are still checked out" % (
                k, name, outcome[0], len(p.used))
    if IDLE:
        vclock._CURRENT[0].advance(3)
    return None


def h_interrupt(nr1: int, nr2: int, fat: int, which: int, op2: int, after: bool) -> int:
    """
    pre: 0 <= nr1 <= 2 and 0 <= nr2 <= 2
    pre: 0 <= fat <= MAXF
    pre: 0 <= which <= 2
    pre: 0 <= op2 < len(FOLLOW)
    post: _ != 0
    """
    exc = EXCS[concretize(which, 0, 2)]
    calls = [(OP1, ops.NR[concretize(nr1, 0, 2)]), (FOLLOW[concretize(op2, 0, len(FOLLOW) - 1)], ops.NR[concretize(nr2, 0, 2)])]
    if IDLE:
        calls.append(("get", None))
    plan = FaultPlan(at=fat, kind=F_TIMEOUT, exc=exc, after=bool(after))
    r = ops.run_history(STACK, calls, plan, 0, nservers=NSERV, after_call=_after, expect_base_exc=EXCS,
                        check_leftover=False,  # C10 speaks about what later calls read, not about queued bytes as such
                        net_opts={"count_close": True}, client_kw={"pool_idle_timeout": 1} if IDLE else None)
    if r[0] == "viol":
        return viol(STACK, calls, exc.__name__, "raised inside socket call", fat, ":", r[1])
    return ok(r[1])


def shards(tier):
    S = []
    if tier == "thorough":
        stacks = ("client", "pooled1", "pooled2", "hash1", "hash2", "hash1p")
        oplist = ("set", "add", "cas", "set_many", "get", "gets", "get_many", "gets_many", "gat", "delete", "delete_many",
                  "incr", "touch", "flush_all", "stats", "quit")
        follow = ("get", "gets", "set", "delete_many", "incr", "get_many")
    else:
        stacks = ("client", "pooled1", "pooled2", "hash1p")
        oplist = ("set", "set_many", "get", "get_many", "delete_many", "incr", "quit")
        follow = ("get", "set")
    for st in stacks:
        for op in oplist:
            S.append(dict(fn="h_interrupt", timeout=900 if tier == "thorough" else 300,
                          shard=dict(stack=st, op1=op, follow=follow)))
    for st in ("pooled1", "pooled2", "hash1p"):
        for op in (("set", "get", "set_many", "delete_many") if tier == "thorough" else ("set", "get")):
            S.append(dict(fn="h_interrupt", timeout=900 if tier == "thorough" else 300,
                          shard=dict(stack=st, op1=op, follow=follow, idle=True, maxf=14)))
    return S


BOUNDS = {
    "quick": "2 calls: first = one of 6 operations on Client / PooledClient(max 1, max 2) / HashClient(pooled) (24 shards); "
             "the interruption strikes inside any connect/sendall/recv/close of the history (symbolic index), before or after the "
             "socket call took effect (symbolic), and is one of "
             "KeyboardInterrupt, SystemExit, a BaseException subclass (symbolic); noreply of both calls and the follow-up "
             "operation {get, set} symbolic; the same with pool_idle_timeout=1 and 3 time units between 3 calls (idle connections "
             "are retired, i.e. closed, inside the next call's ObjectPool.get)",
    "thorough": "15 first operations x 6 stacks, follow-up among 6 operations",
}
OUTSIDE = "interruptions outside socket calls (between two bytecodes of pymemcache itself); more than one interruption"
ASSUMPTIONS = ["as C01", "the interruption is raised by the socket stub in place of the socket call's result"]
RULE = ("one path = one (noreply choices, interruption point, exception class, follow-up) combination; non-trivial when "
        "all calls ran and the C01 monitors plus `pool.used == ()` were evaluated after each call")
