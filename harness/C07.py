"""C07 - ignore_exc turns every read failure into a cache miss.

Real code: the read paths of Client, PooledClient, HashClient with ignore_exc=True under the C01 fault plans,
plus a serde whose deserialize raises.  Oracle: the call never raises and returns exactly what the *same call
expression* returns on a healthy server that does not hold the key; afterwards set+get work.
"""
from harness.common import SHARD, concretize, load_known
from harness import ops
from vkit import clock as vclock
from vkit.net import NetSim, FaultPlan
from vkit.stats import VIOL, SKIP, OK, ok, skip, viol
import pymemcache.client.base as _base

PROP = "C07"
FUNCTIONS = [
    "pymemcache.client.base:Client._fetch_cmd", "pymemcache.client.base:Client.get", "pymemcache.client.base:Client.gets",
    "pymemcache.client.base:Client.gat", "pymemcache.client.base:Client.gats", "pymemcache.client.base:Client.get_many",
    "pymemcache.client.base:Client.gets_many", "pymemcache.client.base:PooledClient.get",
    "pymemcache.client.base:PooledClient.gets", "pymemcache.client.base:PooledClient.gat",
    "pymemcache.client.base:PooledClient.gats", "pymemcache.client.base:PooledClient.get_many",
    "pymemcache.client.base:PooledClient.gets_many", "pymemcache.client.hash:HashClient.get",
    "pymemcache.client.hash:HashClient.gets", "pymemcache.client.hash:HashClient.gat", "pymemcache.client.hash:HashClient.gats",
    "pymemcache.client.hash:HashClient.get_many", "pymemcache.client.hash:HashClient.gets_many",
    "pymemcache.client.hash:HashClient._run_cmd", "pymemcache.client.hash:HashClient._safely_run_func",
    "pymemcache.client.hash:HashClient._get_client",
]
KNOWN = load_known(PROP)

STACK = SHARD.get("stack", "client")
SHAPE = SHARD.get("shape", "get")
MODE = SHARD.get("mode", "fault")      # fault | serde | down
CUTS = tuple(SHARD.get("cuts", (0, 7)))
MAXF = SHARD.get("maxf", 8)
RETRY = SHARD.get("retry_attempts", 2)

# call shapes: defaults by keyword everywhere; positionally for get (its signature is common to the 3 classes)
SHAPES = {
    "get": lambda c, d1, d2: c.get("k1"),
    "get_pos": lambda c, d1, d2: c.get("k1", d1),
    "get_kw": lambda c, d1, d2: c.get("k1", default=d1),
    "gets": lambda c, d1, d2: c.gets("k1"),
    "gets_kw": lambda c, d1, d2: c.gets("k1", default=d1, cas_default=d2),
    "gat": lambda c, d1, d2: c.gat("k1", expire=10),
    "gat_kw": lambda c, d1, d2: c.gat("k1", expire=10, default=d1),
    "gats": lambda c, d1, d2: c.gats("k1", expire=10),
    "gats_kw": lambda c, d1, d2: c.gats("k1", expire=10, default=d1),
    "gats_kw2": lambda c, d1, d2: c.gats("k1", expire=10, default=d1, cas_default=d2),
    "get_many": lambda c, d1, d2: c.get_many(["k1", "n"]),
    "gets_many": lambda c, d1, d2: c.gets_many(["k1", "n"]),
}


class Undeserialisable(Exception):
    pass


class BadSerde:
    KINDS = (ValueError, KeyError, TypeError, ZeroDivisionError, Undeserialisable, EOFError, AttributeError)

    def __init__(self, kind=0):
        self.kind = kind

    def serialize(self, key, value):
        return value, 0

    def deserialize(self, key, value, flags):
        raise self.KINDS[self.kind]("undeserialisable item")


def _client(net, extra=None):
    kw = {"ignore_exc": True}
    if STACK.startswith("hash"):
        kw["retry_attempts"] = RETRY
    if extra:
        kw.update(extra)
    return ops.make_client(STACK, net, **kw)


def h_ignore(fat: int, fk: int, cut: int, d1: int, d2: int) -> int:
    """
    pre: 0 <= fat <= MAXF
    pre: 1 <= fk < 10
    pre: 0 <= cut < len(CUTS)
    post: _ != 0
    """
    call = SHAPES[SHAPE]
    _base.RECV_SIZE = 4096
    # (1) what the same call expression returns for a miss on a healthy server that lacks the key
    clk = vclock.fresh()
    servers0, _ = ops.fresh_servers(2 if STACK == "hash2" else 1)
    for s in servers0.values():
        s.items.clear()
    net0 = NetSim(servers0, None)
    healthy = _client(net0)
    try:
        miss = call(healthy, d1, d2)
    except TypeError:
        return skip("shape-rejected-when-healthy")   # e.g. PooledClient.gets(key, default=...): a C16 matter
    routes = None
    if STACK == "hash2" and SHAPE in ("get_many", "gets_many"):
        # the healthy result on populated servers, and which keys each server was asked for
        servers1, _ = ops.fresh_servers(2)
        full = call(_client(NetSim(servers1, None)), d1, d2)
        routes = [frozenset(k.decode() for cmd in s.cmdlog for k in cmd.keys if k.decode() in full) for s in servers1.values()]
        routes = [r for r in routes if r]
    # (2) the same call under the fault plan
    servers, _ = ops.fresh_servers(2 if STACK == "hash2" else 1)
    extra = None
    if MODE == "serde":
        plan = None
        extra = {"serde": BadSerde(concretize(fk, 1, 9) % len(BadSerde.KINDS))}
    elif MODE == "down":
        plan = None
        servers = {}                      # nothing listens: every connect is refused
    else:
        plan = FaultPlan(at=fat, kind=ops.KINDS[concretize(fk, 1, 9)])
    cutpos = CUTS[concretize(cut, 0, len(CUTS) - 1)]
    net = NetSim(servers, plan, cuts=(cutpos,) if cutpos else ())
    c = _client(net, extra)
    net.begin_call(1)
    calls = 2 if MODE == "down" else 1     # "all servers down": call repeatedly so that eviction happens too
    got = None
    for i in range(calls + (RETRY + 1 if MODE == "down" else 0)):
        try:
            got = call(c, d1, d2)
        except Exception as e:
            return viol(STACK, SHAPE, MODE, "raised", type(e).__name__, "with ignore_exc=True (call", i + 1, ")")
        faulted = MODE != "fault" or (plan is not None and plan.fired)
        if faulted and routes is not None and MODE == "fault":
            # two servers, several keys: the single fault makes one server's keys miss; the other server's keys are
            # still served.  "What the call returns for a miss" is therefore: the keys of exactly one server absent.
            if type(got) is not type(full) or any(k not in full or full[k] != v for k, v in got.items()):
                return viol(STACK, SHAPE, MODE, "returned", repr(got), "which is not part of the healthy result", repr(full))
            lost = frozenset(k for k in full if k not in got)
            if lost not in routes:
                return viol(STACK, SHAPE, MODE, "returned", repr(got), "after one server failed: the absent keys", sorted(lost),
                            "are not the keys of one server", [sorted(r) for r in routes])
        elif faulted:
            same = (got == miss) and (type(got) is type(miss))
            if not same:
                if "C07-miss-shapes" in KNOWN:
                    return skip("known-finding-region")
                return viol(STACK, SHAPE, MODE, "returned", repr(got), "on failure but", repr(miss), "for a miss")
        clk.advance(2)
    if MODE == "fault" and not plan.fired:
        return ok("no-fault")
    if MODE == "down":
        return ok("down")
    # (3) afterwards the client is still usable
    clk.advance(2)
    if MODE == "serde":
        return ok("serde")
    net.begin_call(2)
    try:
        c.set("k9", b"vv", noreply=False)
        back = c.get("k9")
    except Exception as e:
        return viol(STACK, SHAPE, "client unusable after the swallowed failure:", type(e).__name__)
    if back != b"vv":
        return viol(STACK, SHAPE, "client unusable after the swallowed failure: get returned", repr(back))
    if net.violations:
        return viol(STACK, SHAPE, net.violations[0])
    return ok("fault-fired")


def shards(tier):
    S = []
    thorough = tier == "thorough"
    stacks = ("client", "pooled1", "hash1", "hash2", "hash1p") if thorough else ("client", "pooled1", "hash1")
    shapes = list(SHAPES) if thorough else ["get_pos", "get_kw", "gets", "gets_kw", "gat_kw", "gats_kw", "get_many", "gets_many"]
    for st in stacks:
        for sh in shapes:
            S.append(dict(fn="h_ignore", timeout=600, shard=dict(stack=st, shape=sh, mode="fault",
                                                                 cuts=(0, 1, 7) if thorough else (0, 7))))
            S.append(dict(fn="h_ignore", timeout=200, shard=dict(stack=st, shape=sh, mode="serde", cuts=(0,), maxf=0)))
            for ra in ((0, 1, 2) if thorough else (0, 2)):
                if st.startswith("hash") or ra == 2:
                    S.append(dict(fn="h_ignore", timeout=200, shard=dict(stack=st, shape=sh, mode="down", cuts=(0,), maxf=0,
                                                                         retry_attempts=ra)))
    return S


BOUNDS = {
    "quick": "8 call shapes (get positional/keyword default, gets with and without defaults, gat, gats, get_many, gets_many) x "
             "{Client, PooledClient, HashClient(1 server)}; one fault of symbolic kind (9 kinds) at a symbolic socket call "
             "of the read, symbolic cut {none, 7}, default values symbolic ints; a raising deserializer; nothing listening "
             "(HashClient with retry_attempts 0 and 2, repeated calls until eviction)",
    "thorough": "all 12 shapes x 5 stacks, cuts {none,1,7}, retry_attempts {0,1,2}",
}
OUTSIDE = "two faults in one call; defaults of non-int types; stats() (not a keyed read)"
ASSUMPTIONS = ["as C01", "a call shape that a class rejects even when healthy (TypeError) is skipped and counted (C16 matter)",
               "the miss result is computed in the same path by the same call expression on a healthy server without the key"]
RULE = ("one path = one (fault position, kind, cut, default values) class; non-trivial when the faulted call returned and "
        "was compared (value and type) with the healthy miss result and the usability probe ran")
