"""C19 - ElastiCache auto-discovery: rotation equals the advertised node list.

Real code: AWSElastiCacheHashClient.__init__/reconfigure_nodes/_get_nodes_list (+ HashClient.add_server,
Client.raw_command/_readsegment) over NetSim: the configuration endpoint serves `config get cluster`, every node of
a 4-node universe has its own memcached model reachable by IP and by host name.
"""
from harness.common import SHARD, concretize, bit, load_known
from harness import ops
from vkit import clock as vclock
from vkit.net import NetSim, notrace
from vkit.refserver import RefServer, Clock as SClock
from vkit.stats import VIOL, SKIP, OK, ok, skip, viol
import pymemcache.client.base as B
from pymemcache.client.ext.aws_ec_client import AWSElastiCacheHashClient
from pymemcache.exceptions import MemcacheUnknownCommandError, MemcacheError

PROP = "C19"
FUNCTIONS = ["pymemcache.client.ext.aws_ec_client:AWSElastiCacheHashClient.__init__",
             "pymemcache.client.ext.aws_ec_client:AWSElastiCacheHashClient.reconfigure_nodes",
             "pymemcache.client.ext.aws_ec_client:AWSElastiCacheHashClient._get_nodes_list",
             "pymemcache.client.hash:HashClient.add_server", "pymemcache.client.hash:HashClient._get_client",
             "pymemcache.client.base:Client.raw_command", "pymemcache.client.base:_readsegment"]
KNOWN = load_known(PROP)
NREC = SHARD.get("nrec", 1)
RECV = SHARD.get("recv", 4096)
CMIN = SHARD.get("cmin", 0)
CMAX = SHARD.get("cmax", 0)
POOL = SHARD.get("pooling", False)
RA_DEAD = SHARD.get("ra_dead", 0)      # retry_attempts in the failed-node scenarios: 0 = evicted at once, 2 = fresh failure record
WARM = SHARD.get("warm", False)        # pooled clients: open two connections per node before anything fails

ENDPOINT = ("cfg.abc.cache.amazonaws.com", 11211)
NODES = [("node%d.abc.cache.amazonaws.com" % i, "10.0.0.%d" % i, 11210 + i) for i in range(1, 5)]
CORPUS = ["k%d" % i for i in range(8)] + [b"bytes-key", "user:42"]


def _config_text(mask):
    return " ".join("%s|%s|%d" % n for i, n in enumerate(NODES) if mask & (1 << i)).encode()


def _world():
    clock = SClock(1000)
    endpoint = RefServer(clock=clock, name="endpoint")
    servers = {ENDPOINT: endpoint}
    nodes = []
    for host, ip, port in NODES:
        s = RefServer(clock=clock, name=host)
        servers[(host, port)] = s
        servers[(ip, port)] = s
        nodes.append(s)
    return servers, endpoint, nodes


def _norm(addr):
    """socket addresses carry the port as the client passed it (the discovery yields strings): compare with int ports"""
    if isinstance(addr, tuple) and len(addr) == 2 and isinstance(addr[1], str) and addr[1].isdigit():
        return (addr[0], int(addr[1]))
    return addr


def _names(mask, use_vpc):
    return sorted("%s:%s" % ((n[1] if use_vpc else n[0]), n[2]) for i, n in enumerate(NODES) if mask & (1 << i))


def _check_rotation(c, net, nodes, mask, use_vpc, step):
    want = _names(mask, use_vpc)
    got = sorted(str(x) for x in c.hasher.nodes)
    if got != want:
        return "after %s the rotation is %s but the endpoint advertises %s" % (step, got, want)
    if sorted(str(k) for k in c.clients) != want:
        return "after %s clients exist for %s, advertised %s" % (step, sorted(c.clients), want)
    before = [len(s.cmdlog) for s in nodes]
    for key in CORPUS:
        try:
            r = c.set(key, b"v", noreply=False)
        except Exception as e:
            return "after %s set(%r) raised %s: %s" % (step, key, type(e).__name__, e)
        if r is not True:
            return "after %s set(%r) returned %r" % (step, key, r)
    after = [len(s.cmdlog) for s in nodes]
    total = 0
    for i in range(len(nodes)):
        d = after[i] - before[i]
        total += d
        if d and not mask & (1 << i):
            return "after %s a command reached node %d which is not advertised" % (step, i + 1)
    if total != len(CORPUS):
        return "after %s %d of %d commands reached advertised nodes" % (step, total, len(CORPUS))
    # every connection goes to the advertised address form (IP with use_vpc, host name without) and port
    for s in net.sockets:
        if s.open and s.connected and _norm(s.addr) != ENDPOINT:
            ok_addr = any(_norm(s.addr) == ((n[1] if use_vpc else n[0]), n[2])
                          for i, n in enumerate(NODES) if mask & (1 << i))
            if not ok_addr:
                return "after %s a connection to %r is open (not an advertised node address)" % (step, s.addr)
    return None


VSTARTS = (1, 9, 99999999999)   # first configuration version: successive versions cross a digit-count boundary


def _scenario(masks, use_vpc, cut, dead=None, v0=1):
    vclock.fresh()
    B.RECV_SIZE = RECV
    servers, endpoint, nodes = _world()
    net = NetSim(servers, None, cuts=(cut,) if cut else ())
    endpoint.cluster_config = (v0, _config_text(masks[0]))
    net.begin_call(1)
    try:
        c = AWSElastiCacheHashClient("%s:%d" % ENDPOINT, socket_module=net, use_vpc=use_vpc, default_noreply=False,
                                     use_pooling=POOL, timeout=5, connect_timeout=5,
                                     retry_attempts=RA_DEAD if dead is not None else 2, retry_timeout=5)
    except Exception as e:
        return viol("construction raised", type(e).__name__, e, "for configuration", _config_text(masks[0]), "cut", cut)
    msg = _check_rotation(c, net, nodes, masks[0], use_vpc, "construction")
    if msg:
        return viol(msg, "(use_vpc=%s, cut %s)" % (use_vpc, cut))
    if WARM and POOL:
        for cl in c.clients.values():
            a = cl.client_pool.get()
            b = cl.client_pool.get()
            a.get("warm")
            b.get("warm")
            cl.client_pool.release(a)
            cl.client_pool.release(b)
    if dead is not None and masks[0] & (1 << dead):
        # node `dead` refuses connections until HashClient evicts it (retry_attempts=0: on the first failure), then recovers
        host, ip, port = NODES[dead]
        net.down = {(host, port), (ip, port)}
        for key in CORPUS:
            try:
                c.get(key)
            except Exception:
                pass
        net.down = set()
    for step, m in enumerate(masks[1:], 2):
        endpoint.cluster_config = (v0 + step - 1, _config_text(m))
        old_socks = [s for s in net.sockets if s.open and _norm(s.addr) != ENDPOINT]
        try:
            c.reconfigure_nodes()
        except Exception as e:
            return viol("reconfigure_nodes raised", type(e).__name__, e)
        for s in old_socks:
            if s.open:
                return viol("reconfiguration", step, ": the connection to", s.addr, "of a replaced client is still open")
        msg = _check_rotation(c, net, nodes, m, use_vpc, "reconfiguration %d (%s -> %s)" % (
            step - 1, _names(masks[step - 2], use_vpc), _names(m, use_vpc)))
        if msg:
            return viol(msg)
    if net.violations:
        return viol(net.violations[0])
    return ok("rotation")


def h_config(mask: int, use_vpc: bool, cut: int) -> int:
    """
    one configuration, reply delivered with a cut at every position (and receive size 4096 or 4)
    pre: 1 <= mask <= 15
    pre: CMIN <= cut <= CMAX
    post: _ != 0
    """
    mask = concretize(mask, 1, 15)
    cut = concretize(cut, CMIN, CMAX)
    use_vpc = bool(use_vpc)
    with notrace():
        return _scenario([mask], use_vpc, cut)


def h_reconf(m1: int, m2: int, m3: int, use_vpc: bool, dead: int, vs: int) -> int:
    """
    sequences of scale-up / scale-down reconfigurations; optionally one node fails and is evicted before the first
    reconfiguration (dead = its index, -1 = none)
    pre: 1 <= m1 <= 15 and 1 <= m2 <= 15 and 1 <= m3 <= 15
    pre: -1 <= dead <= 3
    pre: 0 <= vs < len(VSTARTS)
    post: _ != 0
    """
    dead = concretize(dead, -1, 3)
    v0 = VSTARTS[concretize(vs, 0, len(VSTARTS) - 1)]
    masks = [concretize(m1, 1, 15), concretize(m2, 1, 15)]
    if NREC >= 2:
        masks.append(concretize(m3, 1, 15))
    elif m3 != 1:
        return skip("unused")
    use_vpc = bool(use_vpc)
    if "C19-stale-rotation" in KNOWN and any(masks[i] & ~masks[i + 1] for i in range(len(masks) - 1)):
        return skip("known-finding-region")
    with notrace():
        return _scenario(masks, use_vpc, 0, None if dead < 0 else dead, v0)


def h_error(kind: int, cut: int) -> int:
    """
    the endpoint answers the config command with an error line, delivered in two pieces cut at any position
    pre: 0 <= kind <= 2
    pre: 0 <= cut <= 40
    post: _ != 0
    """
    kind = concretize(kind, 0, 2)
    cut = concretize(cut, 0, 40)
    if "C19-error-reply" in KNOWN:
        return skip("known-finding-region")
    with notrace():
        vclock.fresh()
        B.RECV_SIZE = 4096
        servers, endpoint, nodes = _world()
        endpoint.cluster_config = None            # RefServer then answers "ERROR\r\n" like a plain memcached
        net = NetSim(servers, None, cuts=(cut,) if cut else ())
        if kind == 1:
            net.reply_hook = lambda r: b"SERVER_ERROR out of memory\r\n"
        elif kind == 2:
            net.reply_hook = lambda r: b"CLIENT_ERROR bad command line format\r\n"
        net.begin_call(1)
        try:
            AWSElastiCacheHashClient("%s:%d" % ENDPOINT, socket_module=net, timeout=5)
        except MemcacheError as e:
            want = ("MemcacheUnknownCommandError", "MemcacheServerError", "MemcacheClientError")[kind]
            if type(e).__name__ != want:
                return viol("an", ("ERROR", "SERVER_ERROR", "CLIENT_ERROR")[kind], "reply raised", type(e).__name__, "instead of", want)
            left = [s.sid for s in net.sockets if s.open]
            if left:
                return viol("sockets", left, "left open after the failed discovery")
            return ok("memcached-error")
        except Exception as e:
            return viol("an error reply to `config get cluster` raised", type(e).__name__, ":", e, "(not a memcached error)",
                        net.violations[:1])
        return viol("construction succeeded although the endpoint answered with an error")


def shards(tier):
    out = []
    thorough = tier == "thorough"
    T = 1500 if thorough else 400
    # the longest config reply is ~230 bytes
    step = 30
    for lo in range(0, 240, step):
        out.append(dict(fn="h_config", timeout=T, shard=dict(cmin=lo, cmax=lo + step - 1, recv=4096)))
    out.append(dict(fn="h_config", timeout=T, shard=dict(cmin=0, cmax=0, recv=4)))
    out.append(dict(fn="h_config", timeout=T, shard=dict(cmin=0, cmax=0, recv=7, pooling=True)))
    out.append(dict(fn="h_reconf", timeout=T, shard=dict(nrec=1)))
    out.append(dict(fn="h_reconf", timeout=T, shard=dict(nrec=1, pooling=True)))
    out.append(dict(fn="h_reconf", timeout=T, shard=dict(nrec=1, pooling=True, warm=True, ra_dead=2)))
    out.append(dict(fn="h_reconf", timeout=T, shard=dict(nrec=1, ra_dead=2)))
    if thorough:
        out.append(dict(fn="h_reconf", timeout=2400, shard=dict(nrec=2)))
    out.append(dict(fn="h_error", timeout=T, shard={}))
    return out


BOUNDS = {
    "quick": "4-node universe (distinct host names, IPs, ports): every non-empty advertised subset (symbolic mask) x use_vpc "
             "x every cut position of the config reply (0..239) and receive sizes 4/7; every pair of successive "
             "configurations (15 x 15, scale-up, scale-down, replacement) with and without pooling, optionally after one "
             "node (symbolic) failed and was evicted, or failed once within retry_timeout (pooled clients holding two "
             "connections each), configuration version numbers starting at a symbolic one of {1, 9, 99999999999} and "
             "increasing by one per change; after construction and "
             "each reconfigure_nodes(): rotation == advertised names, 10-key corpus routed (real set) only to advertised "
             "nodes on the advertised address form and port, replaced clients' connections closed; ERROR / SERVER_ERROR / "
             "CLIENT_ERROR answers to the config command cut at every position",
    "thorough": "adds every triple of successive configurations (15^3)",
}
OUTSIDE = "more than 4 nodes (the property text says 1..6); more than 3 successive configurations; node lines with IPv6 literals"
ASSUMPTIONS = ["NetSim/RefServer as in C01; the endpoint's reply follows the ElastiCache format "
               "`CONFIG cluster 0 <n>\\r\\n<version>\\n<host|ip|port ...>\\n\\r\\nEND\\r\\n`",
               "all inputs are concrete once the solver chose mask/cut/flags: the scenario runs untraced"]
RULE = ("one path = one (configuration sequence, use_vpc, cut) combination enumerated by the solver; non-trivial when the "
        "client was constructed/reconfigured and rotation, routing of the corpus and connection closure were checked")
