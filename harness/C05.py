"""C05 - return values report the server's actual outcome over any history.

Real Client (and PooledClient / HashClient(1)) against the memcached model, stepped in lockstep with an independent
API-level abstract map with expiry and cas versions (vkit/model.py).  The operation of every step, its key, noreply,
expiry, delta, cas-token choice and the clock advance between steps are chosen by the solver (symbolic indices over
small candidate sets that realise every ordering "expires before / exactly when / after it is read"); the first
operation(s) are the shard.  After every step the return value must equal the model's documented result and the
server's content must equal the model's content (effects take place under noreply).
"""
from harness.common import SHARD, concretize, load_known
from harness import ops as O
from vkit import clock as vclock
from vkit.model import Model, NonNumeric
from vkit.net import NetSim, notrace
from vkit.refserver import RefServer, Clock as SClock
from vkit.stats import VIOL, SKIP, OK, ok, skip, viol
import pymemcache.client.base as B
from pymemcache.exceptions import MemcacheClientError

PROP = "C05"
FUNCTIONS = ["pymemcache.client.base:Client." + m for m in (
    "set", "set_many", "add", "replace", "append", "prepend", "cas", "get", "gat", "get_many", "gets", "gats", "gets_many",
    "delete", "delete_many", "incr", "decr", "touch", "flush_all", "_store_cmd", "_fetch_cmd", "_misc_cmd", "_extract_value")]
KNOWN = load_known(PROP)
STACK = SHARD.get("stack", "client")
DNR = SHARD.get("default_noreply", True)
PREFIX = SHARD.get("prefix", "").encode()
FIRST = SHARD.get("first", [])          # names of the first operations (fixed by the shard)
DEPTH = SHARD.get("depth", 2)

OPS = ("set", "add", "replace", "append", "prepend", "cas", "get", "gets", "get_many", "gets_many", "gat", "gats", "touch",
       "delete", "delete_many", "incr", "decr", "set_many", "flush_all")
KEYS = ("k0", "k1")
EXPIRES = (0, -1, 5, 50)
ADVANCES = (0, 4, 5, 6, 50)
DELTAS = (1, 10, 2 ** 64 - 1)
NR = (None, True, False)


def _eff(name, nr):
    if name in ("get", "gets", "get_many", "gets_many", "gat", "gats"):
        return False
    if nr is None:
        return DNR if name in ("set", "add", "replace", "append", "prepend", "set_many", "delete", "delete_many", "touch",
                               "flush_all") else False
    return bool(nr)


def _step(c, m, srv, name, key, nr, expire, delta, casmode, seen, step):
    """run one operation on the client and on the model; returns an error message or None"""
    kw = {} if nr is None else {"noreply": nr}
    noreply = _eff(name, nr)
    other = KEYS[1 - KEYS.index(key)]
    # the first step stores the zero-length value: a hit whose value is falsy must not read as a miss (seed C05-m7)
    val = b"" if step == 0 else ("v%d" % step).encode()
    exp_exc = None
    try:
        if name in ("set", "add", "replace"):
            want = getattr(m, name)(key, val, expire)
            got = getattr(c, name)(key, val, expire=expire, **kw)
            want = True if noreply else want
        elif name in ("append", "prepend"):
            want = getattr(m, name)(key, val)
            got = getattr(c, name)(key, val, **kw)
            want = True if noreply else want
        elif name == "cas":
            toks = seen.get(key, [])
            if casmode == 0 and toks:
                tok, ver = toks[-1]
            elif casmode == 1 and toks:
                tok, ver = toks[0]
            else:
                tok, ver = b"999999", -1
            want = m.cas(key, val, ver, expire)
            got = c.cas(key, val, tok, expire=expire, **kw)
            want = True if noreply else want
        elif name == "get":
            want = m.get(key)
            got = c.get(key)
        elif name == "gets":
            want = m.gets(key)
            got = c.gets(key)
            got = _tokens(seen, key, got, want)
        elif name == "get_many":
            want = dict((k, m.get(k)) for k in KEYS if m.get(k) is not None)
            got = c.get_many([key, other])
        elif name == "gets_many":
            want = dict((k, m.gets(k)) for k in KEYS if m.gets(k)[0] is not None)
            got = c.gets_many([other, key])
            got = dict((k, _tokens(seen, k, v, want.get(k, (None, None)))) for k, v in got.items())
        elif name == "gat":
            want = m.gat(key, expire)
            got = c.gat(key, expire)
        elif name == "gats":
            w = m.gets(key)
            m.gat(key, expire)
            want = w
            got = _tokens(seen, key, c.gats(key, expire), w)
        elif name == "touch":
            want = m.touch(key, expire)
            got = c.touch(key, expire, **kw)
            want = True if noreply else want
        elif name == "delete":
            want = m.delete(key)
            got = c.delete(key, **kw)
            want = True if noreply else want
        elif name == "delete_many":
            m.delete(key)
            m.delete(other)
            want = True
            got = c.delete_many([key, other], **kw)
        elif name in ("incr", "decr"):
            try:
                want = getattr(m, name)(key, delta)
            except NonNumeric:
                want = None
                exp_exc = MemcacheClientError
            if noreply:
                want, exp_exc = None, None
            got = getattr(c, name)(key, delta, **kw)
        elif name == "set_many":
            m.set(key, val, expire)
            m.set(other, val + b"'", expire)
            want = []
            got = c.set_many({key: val, other: val + b"'"}, expire=expire, **kw)
        else:
            want = m.flush_all()
            got = c.flush_all(**kw)
            if STACK.startswith("hash"):
                want = None       # HashClient.flush_all() flushes every server and is documented to return None
    except Exception as e:
        if exp_exc is not None and isinstance(e, exp_exc):
            got = want = "raised"
        else:
            return "step %d %s(%s) raised %s: %s" % (step, name, key, type(e).__name__, e)
    else:
        if exp_exc is not None:
            return "step %d %s(%s) returned %r but the value is not numeric (MemcacheClientError expected)" % (step, name, key, got)
    if got != want or type(got) is not type(want):
        return "step %d %s(%s, noreply=%r, expire=%r) returned %r, the model says %r" % (step, name, key, nr, expire, got, want)
    for k in KEYS:
        sv = srv.peek(PREFIX + k.encode())
        mv = m.value(k)
        if (None if sv is None else sv[0]) != mv:
            return "after step %d %s(%s, noreply=%r) the server holds %r under %s, the model %r" % (step, name, key, nr, sv, k, mv)
        if sv is not None:
            s_exp = srv.items[PREFIX + k.encode()].expire_at
            m_exp = m.d[k].expire_at
            if s_exp != m_exp:
                return "after step %d %s(%s, expire=%r) the item %s expires at %r on the server, the model says %r" % (
                    step, name, key, expire, k, s_exp, m_exp)
    return None


def _tokens(seen, key, got, want):
    """replace the opaque cas token by the model version it stands for, checking the token<->version bijection"""
    val, tok = got
    if tok is None:
        return got
    wver = want[1]
    lst = seen.setdefault(key, [])
    for (t, v) in lst:
        if (t == tok) != (v == wver):
            return (val, "token %r does not track the item version" % tok)
    if not lst or lst[-1][0] != tok:
        lst.append((tok, wver))
    return (val, wver)


KIND_A = ("set", "add", "replace", "gat", "gats", "touch", "set_many")     # take an expiry
KIND_B = ("incr", "decr")                                                  # take a delta
EXP3 = (0, -1, 5)
ADV4 = (0, 4, 5, 6)


def _nvariants(name):
    if name == "cas":
        return 9
    if name in KIND_A or name in KIND_B:
        return 3
    return 1


def _variant(name, v):
    """-> (expire, delta, casmode) for variant index v of operation `name`"""
    if name == "cas":
        return EXP3[v % 3], 1, v // 3
    if name in KIND_A:
        return EXP3[v], 1, 0
    if name in KIND_B:
        return 5, DELTAS[v], 0
    return 5, 1, 0


def h_history(o2: int, o3: int, k1: int, k2: int, k3: int, nr: int, v2: int, v3: int, adv: int) -> int:
    """
    The first operation is the shard (canonical arguments: expiry 5, delta 10, latest cas token); the following ones, their
    keys, their argument variant, noreply and the clock advance are symbolic.
    pre: 0 <= o2 < len(OPS) and 0 <= o3 < len(OPS)
    pre: 0 <= k1 <= 1 and 0 <= k2 <= 1 and 0 <= k3 <= 1
    pre: 0 <= nr <= 2 and 0 <= adv < len(ADV4)
    pre: 0 <= v2 <= 8 and 0 <= v3 <= 8
    post: _ != 0
    """
    names = [FIRST[0]]
    variants = [(5, 10, 0)]
    for i, (o, v) in enumerate(((o2, v2), (o3, v3))[:DEPTH - 1]):
        o = concretize(o, 0, len(OPS) - 1)
        name = OPS[o]
        if len(FIRST) > i + 1 and name != FIRST[i + 1]:
            return skip("leading-operations-are-shard-parameters")
        v = concretize(v, 0, 8)
        if v >= _nvariants(name):
            return skip("no-such-variant")
        names.append(name)
        variants.append(_variant(name, v))
    if DEPTH < 3 and (o3 != 0 or v3 != 0 or k3 != 0):
        return skip("unused")
    keys = [KEYS[concretize(k, 0, 1)] for k in (k1, k2, k3)[:DEPTH]]
    nrv = NR[concretize(nr, 0, 2)]
    advance = ADV4[concretize(adv, 0, len(ADV4) - 1)]
    with notrace():
        vclock.fresh()
        B.RECV_SIZE = 4096
        sclock = SClock(1000)
        srv = RefServer(clock=sclock)
        m = Model()
        m.now = 1000
        net = NetSim({O.ADDR1: srv}, None)
        c = O.make_client(STACK, net, key_prefix=PREFIX, default_noreply=DNR)
        seen = {}
        # initial state: k0 holds a number (so that incr/decr, append, cas have something to work on), k1 is absent;
        # stored through the client and the model alike, then its cas token is learnt
        c.set("k0", b"10", noreply=False)
        m.set("k0", b"10")
        _tokens(seen, "k0", c.gets("k0"), m.gets("k0"))
        for i, (name, key) in enumerate(zip(names, keys)):
            if i > 0:
                sclock.now += advance
                m.now += advance
            net.begin_call(10 + i)
            expire, delta, casmode = variants[i]
            msg = _step(c, m, srv, name, key, nrv, expire, delta, casmode, seen, i + 1)
            if msg:
                return viol(STACK, "history", list(zip(names, keys, variants)), "advance", advance, ":", msg)
            if net.violations:
                return viol(STACK, net.violations[0])
            if srv.protocol_errors:
                return viol(STACK, "the server could not parse", srv.protocol_errors[0])
        return ok("history")


def shards(tier):
    out = []
    thorough = tier == "thorough"
    T = 2400 if thorough else 500
    for op in OPS:
        out.append(dict(fn="h_history", timeout=T, shard=dict(stack="client", first=[op], depth=2)))
    for op in ("set", "cas", "incr", "flush_all", "set_many", "delete", "gats"):
        out.append(dict(fn="h_history", timeout=T, shard=dict(stack="client", first=[op], depth=2, default_noreply=False)))
    for st in ("pooled1", "hash1"):
        for op in ("set", "cas", "decr", "flush_all", "touch", "get_many"):
            out.append(dict(fn="h_history", timeout=T, shard=dict(stack=st, first=[op], depth=2, prefix="p:")))
    if thorough:
        for a in ("set", "add", "cas", "incr", "decr", "touch", "delete", "flush_all", "gets", "append"):
            for b in ("set", "cas", "incr", "touch", "gat", "delete", "flush_all", "set_many", "gets"):
                out.append(dict(fn="h_history", timeout=T, shard=dict(stack="client", first=[a, b], depth=3)))
    return out


BOUNDS = {
    "quick": "histories of 2 operations (after a fixed initial store) over all 19 operations x 2 keys; first operation = shard, "
             "second symbolic with its argument variant: expiry {0, -1, 5}, delta {1, 10, 2^64-1}, cas token {latest seen, oldest "
             "seen, unknown} x expiry; noreply {default, True, False}; clock advance {0, 4, 5, 6} between the steps (below / at "
             "/ above the expiry), all symbolic indices; default_noreply True (all) and False (7 first operations); PooledClient and HashClient(1 server) "
             "with a key prefix for 6 first operations",
    "thorough": "adds histories of 3 operations for 90 two-operation prefixes",
}
OUTSIDE = "histories longer than 3; more than 2 keys; seeded random long histories (not a solver technique)"
ASSUMPTIONS = ["vkit/model.py is the API-level specification (map with expiry and cas versions), vkit/refserver.py the wire-level "
               "server; both were written separately and are compared on every step",
               "cas tokens are opaque: the harness only requires that equal tokens <=> equal model versions",
               "all values are concrete once the solver chose the indices: histories run untraced"]
RULE = ("one path = one (operation sequence, keys, noreply, expiry, advance, delta, cas choice) combination enumerated by the "
        "solver; non-trivial when every step's return value and the resulting server content were compared with the model")
