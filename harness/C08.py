"""C08 - pooled connections are never shared between threads (Engine C, vkit/ilv.py).

The real ObjectPool methods, rewritten from /repo's source into schedulable generators, are run by 2-3 "threads",
each doing what a PooledClient method does (enter get_and_release(destroy_on_fail=True), use the client, leave
normally / by exception / after an explicit destroy as in quit()) or calling clear() as PooledClient.close() does.
The schedule is the symbolic input: the running thread is switched only at symbolic preemption points
p1 < p2 < p3 (step numbers) to symbolic targets, plus forced switches when a thread blocks on the lock.
"""
from harness.common import SHARD, concretize
from vkit import clock as vclock
from vkit import ilv
from vkit.net import notrace
from vkit.stats import VIOL, SKIP, OK, ok, skip, viol

PROP = "C08"
FUNCTIONS = ["pymemcache.pool:ObjectPool.get", "pymemcache.pool:ObjectPool.release", "pymemcache.pool:ObjectPool.destroy",
             "pymemcache.pool:ObjectPool.clear", "pymemcache.pool:ObjectPool.get_and_release",
             "pymemcache.pool:ObjectPool.__init__"]
ENGINE = ("Engine C: AST rewrite of the real ObjectPool methods into generators (one switch point per statement), scheduler "
          "with symbolic preemption points explored by CrossHair/z3")
NT = SHARD.get("threads", 2)
OPS_PER = SHARD.get("ops", 1)
MAXSIZE = SHARD.get("max_size", 1)       # 0 = unbounded
MODES = tuple(SHARD.get("modes", (0, 0)))  # per operation: 0 ok, 1 raises inside the with-block, 2 quit-style destroy, 3 clear()
NPRE = SHARD.get("preemptions", 2)
PMAX = SHARD.get("pmax", 60)

vclock.install()
GPool, REWRITTEN = ilv.build()


class Obj:
    def __init__(self, n):
        self.n = n
        self.holders = 0
        self.closed = 0
        self._last_used = 0


def worker(pool, modes, bad, tid):
    for mode in modes:
        if mode == 3:
            yield from pool.clear()
            continue
        cm = pool.get_and_release(destroy_on_fail=True)
        try:
            obj = yield from ilv.ctx_enter(cm)
        except RuntimeError as e:
            if "Too many" in str(e):
                continue          # documented behaviour at max_size
            raise
        obj.holders += 1
        if obj.holders != 1:
            bad.append("connection %d is held by %d threads" % (obj.n, obj.holders))
        yield ("use", obj.n)
        if obj.holders != 1:
            bad.append("connection %d is held by %d threads" % (obj.n, obj.holders))
        yield ("use2", obj.n)
        obj.holders -= 1
        if mode == 1:
            try:
                yield from ilv.ctx_exit(cm, OSError("call failed"))
            except OSError:
                pass
        elif mode == 2:
            yield from pool.destroy(obj)       # PooledClient.quit(): finally: self.client_pool.destroy(client)
            yield from ilv.ctx_exit(cm, None)
        else:
            yield from ilv.ctx_exit(cm, None)


def run_schedule(first, pts, tos, modes_per_thread, max_size):
    created = []

    def creator():
        o = Obj(len(created))
        created.append(o)
        return o

    def after_remove(o):
        o.closed += 1

    pool = GPool(creator, after_remove=after_remove, max_size=max_size or None, lock_generator=ilv.SimLock)
    bad = []
    n = len(modes_per_thread)
    gens = [worker(pool, modes_per_thread[t], bad, t) for t in range(n)]
    alive = [True] * n
    cur = first
    step = 0
    j = 0
    spins = 0
    cleared = any(3 in m for m in modes_per_thread)
    while any(alive):
        if j < len(pts) and step == pts[j]:
            cur = (cur + 1 + tos[j]) % n
            j += 1
        if not alive[cur]:
            cur = (cur + 1) % n
            continue
        try:
            r = next(gens[cur])
        except StopIteration:
            alive[cur] = False
            continue
        except Exception as e:
            bad.append("internal error escaped a pool operation: %s: %s" % (type(e).__name__, e))
            alive[cur] = False
            continue
        step += 1
        used, free = list(pool._used_objs), list(pool._free_objs)
        if max_size and len(used) + len(free) > max_size:
            bad.append("pool holds %d connections, max_size %d" % (len(used) + len(free), max_size))
        seen = []
        for o in used + free:
            for s in seen:
                if s is o:
                    bad.append("connection %d is listed twice in the pool" % o.n)
            seen.append(o)
        for o in free:
            if o.closed:
                bad.append("closed connection %d is idle in the pool" % o.n)
        if bad:
            return bad
        if r[0] == "blocked":
            spins += 1
            if spins > 3 * n:
                bad.append("deadlock: every live thread is blocked")
                return bad
            cur = (cur + 1) % n
        else:
            spins = 0
        if step > 400:
            bad.append("schedule did not terminate")
            return bad
    if len(pool._used_objs) != 0 and not cleared:
        bad.append("%d connections still checked out when all threads are done" % len(pool._used_objs))
    for o in created:
        infree = sum(1 for f in pool._free_objs if f is o)
        if infree + o.closed != 1:
            bad.append("connection %d: idle in the pool %d times, closed %d times" % (o.n, infree, o.closed))
    if pool._lock.held:
        bad.append("lock still held at the end")
    return bad


def h_sched(first: int, p1: int, p2: int, p3: int, t1: int, t2: int, t3: int) -> int:
    """
    A preemption at step p_j switches to thread (current + 1 + t_j) mod NT, i.e. always to another thread.
    pre: 0 <= first < NT and 0 <= t1 < NT - 1 and 0 <= t2 < NT - 1 and 0 <= t3 < NT - 1
    pre: 0 <= p1 and p1 < p2 and p2 < p3 and p3 <= PMAX + 2
    post: _ != 0
    """
    if NPRE < 3 and (p3 != p2 + 1 or t3 != 0):
        return skip("unused-preemption")
    if NPRE < 2 and (p2 != p1 + 1 or t2 != 0):
        return skip("unused-preemption")
    first = concretize(first, 0, NT - 1)
    pts = [concretize(p1, 0, PMAX)]
    if NPRE >= 2:
        pts.append(concretize(p2, pts[0] + 1, PMAX + 1))
    if NPRE >= 3:
        pts.append(concretize(p3, pts[1] + 1, PMAX + 2))
    rel = [concretize(t, 0, max(NT - 2, 0)) for t in (t1, t2, t3)[:NPRE]]
    with notrace():
        modes = [list(MODES[t * OPS_PER:(t + 1) * OPS_PER]) for t in range(NT)]
        bad = run_schedule(first, pts, rel, modes, MAXSIZE)
        if bad:
            return viol("threads", NT, "modes", modes, "max_size", MAXSIZE or "unbounded", "first", first, "preempt at", pts,
                        "to +", rel, ":", bad[0])
        return ok("schedule")


def shards(tier):
    import itertools
    out = []
    thorough = tier == "thorough"
    T = 2400 if thorough else 500
    for ms in ((1, 2, 0) if thorough else (1, 2)):
        for modes in itertools.product((0, 1, 2, 3), repeat=2):
            out.append(dict(fn="h_sched", timeout=T, shard=dict(threads=2, ops=1, max_size=ms, modes=list(modes),
                                                                preemptions=3 if thorough else 2, pmax=45)))
    for modes in itertools.product((0, 1), repeat=3):
        out.append(dict(fn="h_sched", timeout=T, shard=dict(threads=3, ops=1, max_size=2, modes=list(modes),
                                                            preemptions=2, pmax=45 if thorough else 30)))
    for modes in (((0, 0, 0, 0), (0, 1, 1, 0), (1, 2, 0, 3), (2, 0, 0, 1)) if not thorough else
                  list(itertools.product((0, 1, 2), repeat=4))[::4]):
        out.append(dict(fn="h_sched", timeout=T, shard=dict(threads=2, ops=2, max_size=1 if sum(modes) % 2 else 2,
                                                            modes=list(modes), preemptions=2, pmax=40 if not thorough else 70)))
    return out


BOUNDS = {
    "quick": "2 threads x 1 operation each over every pair of {ok, raises, quit-style destroy, clear()} x max_size {1,2}, 2 "
             "preemptions at symbolic steps 0..45 to symbolic threads (plus forced switches on lock contention); 3 threads x 1 "
             "operation {ok, raises} x max_size 2, 2 preemptions; 2 threads x 2 operations (4 mode tuples), 2 preemptions",
    "thorough": "3 preemptions, max_size unbounded too, 20 mode tuples for 2x2 operations",
}
OUTSIDE = ("preemption inside one statement (bytecode granularity): switch points are statement boundaries, justified because "
           "each yielded statement performs at most one access to shared pool state and deque methods are atomic under the "
           "GIL; more than 3 threads / 3 preemptions; real OS threads; the PooledClient wrappers themselves (that each "
           "brackets its work in get_and_release is covered sequentially by C09/C01)")
ASSUMPTIONS = ["the AST rewrite preserves the statements of the real methods (validated at setup by running the rewritten class "
               "to completion against the original on random sequential operation sequences)",
               "the lock is a non-reentrant mutex supplied through lock_generator; blocking is modelled by spinning with a "
               "forced switch"]
RULE = ("one path = one feasible schedule (first thread, preemption steps, targets); non-trivial when all threads ran to "
        "completion and the per-step and final pool invariants were evaluated")
TRUSTED = ["z3", "CrossHair int model", "vkit/ilv.py rewriter (validated at setup against the original class)"]
