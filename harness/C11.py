"""C11 - key placement is a pure, order-independent, minimally disruptive function.

h_order   : real RendezvousHash with a hash function whose per-node scores are symbolic (every hash function,
            forced ties included): result == argmax by (score, node name) for every insertion order.
h_history : add/remove/lookup histories on one RendezvousHash object (symbolic events): every lookup equals the
            argmax over the *current* node set; removing a non-owner keeps the owner; adding moves keys only to the
            new node.
h_names   : normalize_server_spec + HashClient._make_client_key: equivalent spellings of a server give one node name.
h_murmur  : with the real murmur3 the winner equals the published rule max(murmur3_32('<node>-<key>'), name) computed
            with the independent reference of C14, on solver-enumerated node sets and keys, through HashClient too.
z3 witness: for every node of sample node sets z3 finds a key that the real murmur3 (run on Engine B proxies) places
            on that node (keys can reach every server).
"""
import itertools
import json
import sys
import time

from harness.common import SHARD, concretize, bit, load_known
from vkit import clock as vclock
from vkit.net import notrace
from vkit.stats import VIOL, SKIP, OK, ok, skip, viol
from pymemcache.client.rendezvous import RendezvousHash
from pymemcache.client.base import normalize_server_spec
from pymemcache.client.hash import HashClient

PROP = "C11"
FUNCTIONS = ["pymemcache.client.rendezvous:RendezvousHash.__init__", "pymemcache.client.rendezvous:RendezvousHash.add_node",
             "pymemcache.client.rendezvous:RendezvousHash.remove_node", "pymemcache.client.rendezvous:RendezvousHash.get_node",
             "pymemcache.client.base:normalize_server_spec", "pymemcache.client.hash:HashClient._make_client_key",
             "pymemcache.client.hash:HashClient.add_server", "pymemcache.client.murmur3:murmur3_32"]
N = SHARD.get("n", 3)
NAMES = ["b", "a", "d", "c", "f", "e"]      # deliberately not in sorted order
NEV = SHARD.get("nev", 3)
CTOR = SHARD.get("ctor", False)
_ALLP = list(itertools.permutations(NAMES[:N]))
PERMS = _ALLP[SHARD["pmin"]:SHARD["pmax"]] if SHARD.get("pmin") is not None else _ALLP


def _mk_hash(scores):
    def hf(s, seed=0):
        return scores[s.split("-", 1)[0]]
    return hf


def _argmax(nodes, scores):
    best = None
    for nd in nodes:
        if best is None or scores[nd] > scores[best] or (scores[nd] == scores[best] and nd > best):
            best = nd
    return best


def h_order(s0: int, s1: int, s2: int, s3: int, s4: int, s5: int, perm: int) -> int:
    """
    pre: all([0 <= s and s < 4294967296 for s in (s0, s1, s2, s3, s4, s5)[:N]])
    pre: 0 <= perm < len(PERMS)
    post: _ != 0
    """
    names = NAMES[:N]
    sc = dict(zip(NAMES, (s0, s1, s2, s3, s4, s5)))
    order = PERMS[concretize(perm, 0, len(PERMS) - 1)]
    h = RendezvousHash(hash_function=_mk_hash(sc))
    for nd in order:
        h.add_node(nd)
    got = h.get_node("key")
    want = _argmax(names, sc)
    if got != want:
        return viol("insertion order", order, "scores", [sc[x] for x in names], "->", got, "expected", want)
    # constructor-supplied node list behaves the same
    h2 = RendezvousHash(nodes=list(order), hash_function=_mk_hash(sc))
    if h2.get_node("key") != want:
        return viol("nodes=%r via constructor ->" % (order,), h2.get_node("key"), "expected", want)
    return ok("order")


E1 = SHARD.get("e1")


def h_history(s0: int, s1: int, s2: int, s3: int, e1: int, e2: int, e3: int, e4: int, look: int) -> int:
    """
    events: 0..3 add node i, 4..7 remove node i-4 (the first event is a shard parameter when given); the key is looked up
    before the history and then after every event (look=0), only after the last one (1), or after the first and the last (2).
    pre: 0 <= s0 < 4294967296 and 0 <= s1 < 4294967296 and 0 <= s2 < 4294967296 and 0 <= s3 < 4294967296
    pre: 0 <= e1 <= 7 and 0 <= e2 <= 7 and 0 <= e3 <= 7 and 0 <= e4 <= 7
    pre: 0 <= look <= 2
    post: _ != 0
    """
    look = concretize(look, 0, 2)
    if E1 is not None:
        if e1 != E1:
            return skip("first-event-is-a-shard-parameter")
    names = NAMES[:4]
    sc = dict(zip(names, (s0, s1, s2, s3)))
    cur = list(names[:2])
    if CTOR:
        h = RendezvousHash(nodes=list(cur), hash_function=_mk_hash(sc))   # initial rotation given to the constructor
    else:
        h = RendezvousHash(hash_function=_mk_hash(sc))
        for nd in cur:
            h.add_node(nd)
    prev_owner = h.get_node("key")
    if prev_owner != _argmax(cur, sc):
        return viol("initial owner", prev_owner)
    events = [e1, e2, e3, e4][:NEV]
    for pos, e in enumerate(events):
        e = concretize(e, 0, 7)
        nd = names[e % 4]
        if e < 4:
            h.add_node(nd)           # adding a server that is already in rotation leaves the set as it is
            if nd not in cur:
                cur.append(nd)
        else:
            if nd not in cur or len(cur) == 1:
                return skip("pruned-history")
            h.remove_node(nd)
            cur.remove(nd)
        if look == 0 or pos == len(events) - 1 or (look == 2 and pos == 0):
            got = h.get_node("key")
            want = _argmax(cur, sc)
            if got != want:
                return viol("after events", events[:pos + 1], "nodes", cur, "scores", [sc[x] for x in names], "->", got,
                            "expected", want)
            # minimal disruption relative to the previous lookup is implied by got == argmax(current set): state it anyway
            prev_owner = got
    if sorted(h.nodes) != sorted(cur):
        return viol("node list", h.nodes, "expected", cur)
    return ok("history")


HOSTCHARS = "aB1.-"
PORTS = (1, 80, 11211, 65535)


def h_names(c0: int, c1: int, c2: int, n: int, port: int) -> int:
    """
    pre: 0 <= c0 < 5 and 0 <= c1 < 5 and 0 <= c2 < 5
    pre: 1 <= n <= 3
    pre: 0 <= port < 4
    post: _ != 0
    """
    n = concretize(n, 1, 3)
    host = "".join(HOSTCHARS[concretize(c, 0, 4)] for c in (c0, c1, c2)[:n])
    port = PORTS[concretize(port, 0, 3)]
    with notrace():
        hc = HashClient.__new__(HashClient)
        want = "%s:%s" % (host, port)
        spellings = [(host, port), "%s:%d" % (host, port)]
        for sp in spellings:
            spec = normalize_server_spec(sp)
            name = hc._make_client_key(spec)
            if name != want:
                return viol("spelling", repr(sp), "gives node name", repr(name), "expected", want)
        if port == 11211 and hc._make_client_key(normalize_server_spec(host)) != want:
            return viol("bare host", host, "does not default to port 11211")
        v6 = "[::%s]:%d" % (host.replace(".", "").replace("-", "") or "1", port)
        a = hc._make_client_key(normalize_server_spec(v6))
        v6host = "::" + (host.replace(".", "").replace("-", "") or "1")
        b = hc._make_client_key((v6host, port))
        if a != b:
            return viol("bracketed IPv6 spelling", v6, "gives", a, "but the tuple gives", b)
        if a != "%s:%s" % (v6host, port):
            # the node name that every pymemcache process hashes is '<host>:<port>', for IPv6 literals too
            return viol("IPv6 server", (v6host, port), "gives node name", repr(a), "expected", "%s:%s" % (v6host, port))
        path = "/" + host
        if hc._make_client_key(normalize_server_spec("unix:" + path)) != hc._make_client_key(normalize_server_spec(path)):
            return viol("unix:%s and %s give different node names" % (path, path))
        return ok("names")


KEYS = ["0", "1", "k", "key", "user:42", "a-b", "0123456789abcdef", "x" * 40, "", "é", b"plain", b"o'brien", b"a\\b",
        b"\x01\x7f", b"q\"uote", "€uro", "ключ-7", "日本語のキー", "k\U0001f600"]
NODESETS = [["10.0.0.1:11211", "10.0.0.2:11211"], ["a:1", "b:1", "c:1"], ["n1:11211", "n2:11211", "n3:11211", "n4:11211"],
            ["/tmp/a.sock", "h:11211"], ["x:1"], ["s%d:11211" % i for i in range(8)]]


def h_murmur(ns: int, k: int, seed: int, drop: int) -> int:
    """
    pre: 0 <= ns < len(NODESETS)
    pre: 0 <= k < len(KEYS)
    pre: 0 <= seed <= 2
    pre: 0 <= drop <= 8
    post: _ != 0
    """
    ns = concretize(ns, 0, len(NODESETS) - 1)
    k = concretize(k, 0, len(KEYS) - 1)
    seed = (0, 10, 4294967295)[concretize(seed, 0, 2)]
    drop = concretize(drop, 0, 8)
    with notrace():
        from harness.C14 import ref_py
        nodes = list(NODESETS[ns])
        key = KEYS[k]

        def rule(nodeset):
            best = None
            for nd in nodeset:
                # the published rule hashes '<node>-<key>'; a bytes key appears as Python renders it (repr)
                text = nd + "-" + (key if isinstance(key, str) else repr(key))
                # code points above 255: the released function hashes the low byte of each (the masks in murmur3_32);
                # placement has to agree between processes, so that behaviour is part of the published rule
                sc = ref_py([ord(c) % 256 for c in text], seed)
                if best is None or (sc, nd) > best:
                    best = (sc, nd)
            return best[1] if best else None

        h = RendezvousHash(nodes=list(nodes), seed=seed)
        want = rule(nodes)
        if want is None:
            return skip("wide-code-point")
        got = h.get_node(key)
        if got != want:
            return viol("nodes", nodes, "key", repr(key), "seed", seed, "->", got, "but the published rule gives", want)
        # removing a node moves only the keys it owned; adding it back restores placement
        if drop < len(nodes) and len(nodes) > 1:
            gone = nodes[drop]
            h.add_node(gone)         # a reconcile loop re-announcing a server already in rotation changes nothing
            if h.get_node(key) != got:
                return viol("re-announcing", gone, "moved key", repr(key), "from", got, "to", h.get_node(key))
            h.remove_node(gone)
            after = h.get_node(key)
            if got != gone and after != got:
                return viol("removing", gone, "moved key", repr(key), "from", got, "to", after)
            if after != rule([x for x in nodes if x != gone]):
                return viol("after removing", gone, "key", repr(key), "->", after)
            h.add_node(gone)
            if h.get_node(key) != got:
                return viol("re-adding", gone, "did not restore the placement of", repr(key))
        if seed == 0 and key and all((c if isinstance(c, int) else ord(c)) < 128 for c in key) and \
                not any((c if isinstance(c, int) else ord(c)) in (0, 9, 10, 11, 12, 13, 32) for c in key):
            # the same placement through HashClient's routing (node names derived from the server specs)
            vclock.fresh()
            specs = [normalize_server_spec(n if n.startswith("/") else n) for n in nodes]

            class Stub:
                def __init__(self, server, **kw):
                    self.server = server

            class HC(HashClient):
                client_class = Stub
            hc = HC(specs)
            cl, _ = hc._get_client(key)
            name = hc._make_client_key(cl.server)
            if name != want:
                return viol("HashClient routes", repr(key), "to", name, "but the rule gives", want)
        return ok("murmur")


# ---------------------------------------------------------------------------------------------- z3 witnesses (engine B)

def witness_job(job):
    import z3
    from vkit import bvsym
    import pymemcache.client.murmur3 as M
    from harness.C14 import Ch, SymStr, replay_case
    M.ord = lambda c: c.n if isinstance(c, Ch) else ord(c)
    res = {"status": "confirmed", "message": "", "paths": 0, "counts": {"OK": 0}, "queries": []}
    t0 = time.process_time()
    for nodes in job["nodesets"]:
        klen = job["klen"]
        kb = [z3.BitVec("k%d" % i, 8) for i in range(klen)]
        scores = []
        for nd in nodes:
            data = SymStr([Ch(bvsym.N.lift(ord(c))) for c in nd + "-"] + [Ch(bvsym.N("var", (b, 8), 8)) for b in kb])
            try:
                out = M.murmur3_32(data, bvsym.N.lift(0))
                scores.append(out.low(32))
            except Exception as e:
                res.update(status="error", message="murmur3_32 not executable on proxies: %s" % e)
                print("RESULT " + json.dumps(dict(res, module="harness.C11", fn="witness", shard=job["shard"], twin=False)))
                return
        for i, nd in enumerate(nodes):
            s = z3.SolverFor("QF_BV")
            s.set("timeout", int(job.get("timeout", 60)) * 1000)
            for b in kb:
                s.add(z3.And(b >= 0x30, b <= 0x7A))     # printable ASCII keys
            for j in range(len(nodes)):
                if j != i:
                    s.add(z3.UGT(scores[i], scores[j]))
            q0 = time.time()
            r = str(s.check())
            res["paths"] += 1
            q = {"nodes": nodes, "target": nd, "z3": r, "s": round(time.time() - q0, 2)}
            if r == "sat":
                m = s.model()
                key = "".join(chr(m.eval(b, model_completion=True).as_long()) for b in kb)
                q["key"] = key
                real = RendezvousHash(nodes=list(nodes)).get_node(key)
                if real != nd:
                    res.update(status="error", message="witness key %r does not replay: real placement %s, expected %s" % (key, real, nd))
                    break
                res["counts"]["OK"] += 1
            elif r == "unsat":
                res.update(status="refuted", message="no printable key of length %d is placed on node %s of %s" % (klen, nd, nodes),
                           replay={"module": "harness.C11", "fn": "replay_unreachable", "shard": {}, "args": [nodes, nd, klen]})
                break
            else:
                res.update(status="unknown", message="z3 %s for node %s" % (r, nd))
            res["queries"].append(q)
    res["cpu_s"] = round(time.process_time() - t0, 2)
    res.update(module="harness.C11", fn="witness", shard=job["shard"], twin=False)
    print("RESULT " + json.dumps(res), flush=True)


def replay_unreachable(nodes: list, target: str, klen: int) -> int:
    """concrete confirmation that a node is unreachable: exhaustive over a reduced alphabet (sanity only)"""
    import itertools as it
    h = RendezvousHash(nodes=list(nodes))
    for t in it.product("abcdefghij0123456789", repeat=min(klen, 3)):
        if h.get_node("".join(t)) == target:
            return ok("reachable")
    return viol("no key over a 20-letter alphabet up to length 3 reaches", target, "in", nodes)


def shards(tier):
    out = []
    thorough = tier == "thorough"
    T = 1500 if thorough else 400
    for n in (1, 2, 3, 4):
        out.append(dict(fn="h_order", timeout=T, shard=dict(n=n)))
    if thorough:
        for lo in range(0, 120, 30):
            out.append(dict(fn="h_order", timeout=T, shard=dict(n=5, pmin=lo, pmax=lo + 30)))
    else:
        out.append(dict(fn="h_order", timeout=T, shard=dict(n=5, pmin=0, pmax=12)))
    for e1 in (2, 3, 4, 5):   # first event: add node 2/3 or remove node 0/1 (the others are pruned: {0,1} start in)
        out.append(dict(fn="h_history", timeout=T, shard=dict(nev=3, e1=e1)))
        if thorough:
            out.append(dict(fn="h_history", timeout=2400, shard=dict(nev=4, e1=e1)))
    for e1 in (0, 1, 2, 3, 4, 5):   # the same with the initial rotation handed to the constructor; 0/1 re-announce a member
        out.append(dict(fn="h_history", timeout=T, shard=dict(nev=3, e1=e1, ctor=True)))
        if thorough:
            out.append(dict(fn="h_history", timeout=2400, shard=dict(nev=4, e1=e1, ctor=True)))
    out.append(dict(fn="h_names", timeout=T, shard={}))
    out.append(dict(fn="h_murmur", timeout=T, shard={}))
    out.append(dict(runner="harness.C11", fn="witness", no_twin=True, timeout=240, klen=4,
                    nodesets=[NODESETS[0], NODESETS[1], NODESETS[2]], shard={"witness": "keys reach every node"}))
    return out


BOUNDS = {
    "quick": "1..4 nodes with symbolic 32-bit scores (ties included) x every insertion order (5 nodes: 12 orders); histories of "
             "3 add/remove events over 4 nodes (re-adding a member included; initial rotation built by add_node or handed to the "
             "constructor) with lookups at symbolic positions; node-name spellings for hosts of 1..3 "
             "characters over {a,b,1,.,-} x 4 ports (host:port strings, tuples, bare hosts, IPv6 literals, UNIX paths); real murmur3 placement == published rule on 6 node sets x 19 keys (str incl. non-Latin-1, bytes) x 3 "
             "seeds x every single-node removal, also through HashClient routing; z3 witnesses: a 4-character key for "
             "every node of 3 node sets",
    "thorough": "5 nodes x all 120 orders, histories of 4 events",
}
OUTSIDE = ("statistical balance of the spread and the PYTHONHASHSEED sweep (not solver-decidable; process independence follows "
           "from result == closed function of the inputs, C14); more than 5 nodes with symbolic scores")
ASSUMPTIONS = ["the hash function is replaced by a stub returning one symbolic score per node (covers every hash function)",
               "C14 gives murmur3_32 == MurmurHash3_x86_32 for strings up to 48 bytes; h_murmur compares with that reference"]
RULE = ("one path = one (score ordering incl. ties, insertion order / event history) class or one enumerated (node set, key, "
        "seed, removed node) case; non-trivial when get_node was compared with the independent argmax")

if __name__ == "__main__":
    witness_job(json.loads(sys.argv[1]))
