"""Shared helpers for harness modules (importable under python3-vt+CrossHair and under /venv/bin/python)."""
import json
import os

SHARD = json.loads(os.environ.get("VERIF_SHARD", "{}") or "{}")
UNDER_CH = os.environ.get("VERIF_UNDER_CROSSHAIR") == "1"


def load_known(prop):
    """open known findings for a property: {finding_id: entry}"""
    if os.environ.get("VERIF_IGNORE_KNOWN") == "1":
        return {}
    path = os.path.join(os.path.dirname(os.path.dirname(os.path.abspath(__file__))), "known_findings.json")
    try:
        with open(path) as f:
            data = json.load(f)
    except FileNotFoundError:
        return {}
    return {e["id"]: e for e in data.get("findings", []) if e["property"] == prop and e.get("status") == "open"}


BAD_KEY_BYTES = (0, 9, 10, 11, 12, 13, 32)


def legal_wire_key(full) -> bool:
    """independent predicate over byte values: 1..250 bytes, none of NUL TAB LF VT FF CR SP"""
    n = len(full)
    if n < 1 or n > 250:
        return False
    for b in full:
        if b == 0 or b == 32 or (9 <= b and b <= 13):
            return False
    return True


def utf8_of(cp_list):
    """independent UTF-8 encoder over a list of code points (ints); returns list of byte values.
    Written with // and % only: CrossHair realizes the operands of | & >> on symbolic ints."""
    out = []
    for c in cp_list:
        if c < 0x80:
            out.append(c)
        elif c < 0x800:
            out.append(0xC0 + c // 64)
            out.append(0x80 + c % 64)
        elif c < 0x10000:
            out.append(0xE0 + c // 4096)
            out.append(0x80 + (c // 64) % 64)
            out.append(0x80 + c % 64)
        else:
            out.append(0xF0 + c // 262144)
            out.append(0x80 + (c // 4096) % 64)
            out.append(0x80 + (c // 64) % 64)
            out.append(0x80 + c % 64)
    return out


def same_bytes(got, want) -> bool:
    """element-wise equality of a bytes-like and a bytes/list of byte values (keeps symbolic ints symbolic)"""
    if len(got) != len(want):
        return False
    for i in range(len(want)):
        if got[i] != want[i]:
            return False
    return True


def concretize(x, lo, hi):
    """turn a small symbolic int into a concrete one by forking on equality (no realization, no symbolic
    indexing of containers: CrossHair turns tuple[<symbolic int>] of classes into an unsupported symbolic type)"""
    for v in range(lo, hi + 1):
        if x == v:
            return v
    raise AssertionError("value outside [%d, %d]" % (lo, hi))


def bit(mask, i) -> bool:
    """bit i of a (possibly symbolic) non-negative int, arithmetic only"""
    return (mask // (2 ** i)) % 2 == 1
