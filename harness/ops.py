"""Operation alphabet and client stacks shared by the network harnesses (C01, C05, C06, C07, C09, C10, C16)."""
from vkit import clock as _clock
from vkit.net import NetSim
from vkit.refserver import RefServer, Clock as SClock

from pymemcache.client.base import Client, PooledClient
from pymemcache.client.hash import HashClient

NR = (None, True, False)


def _nr(kw, nr):
    if nr is not None:
        kw["noreply"] = nr
    return kw


# name -> (callable(client, nr) , kind) ; kind: "store" / "fetch" / "misc"; nr is None/True/False
def _mk():
    o = {}
    o["set"] = lambda c, nr: c.set("k1", b"hi", **_nr({}, nr))
    o["add"] = lambda c, nr: c.add("k2", b"hi", **_nr({}, nr))
    o["replace"] = lambda c, nr: c.replace("k1", b"hi", **_nr({}, nr))
    o["append"] = lambda c, nr: c.append("k1", b"hi", **_nr({}, nr))
    o["prepend"] = lambda c, nr: c.prepend("k1", b"hi", **_nr({}, nr))
    o["cas"] = lambda c, nr: c.cas("k1", b"hi", b"1", **_nr({}, nr))
    o["set_many"] = lambda c, nr: c.set_many({"k1": b"hi", "k2": b"yo"}, **_nr({}, nr))
    # the str and the bytes spelling of one key: two caller keys, one wire key
    o["set_many_dup"] = lambda c, nr: c.set_many({"k1": b"hi", b"k1": b"yo"}, **_nr({}, nr))
    o["get_many_dup"] = lambda c, nr: c.get_many(["k1", b"k1", "n"])
    o["delete_many_dup"] = lambda c, nr: c.delete_many(["k1", b"k1"], **_nr({}, nr))
    o["get"] = lambda c, nr: c.get("k1")
    o["get_miss"] = lambda c, nr: c.get("k2")
    o["gets"] = lambda c, nr: c.gets("k1")
    o["get_many"] = lambda c, nr: c.get_many(["k1", "k2", "n"])
    o["gets_many"] = lambda c, nr: c.gets_many(["k1", "n"])
    o["gat"] = lambda c, nr: c.gat("k1", expire=10)
    o["gats"] = lambda c, nr: c.gats("k1", expire=10)
    o["delete"] = lambda c, nr: c.delete("k1", **_nr({}, nr))
    o["delete_many"] = lambda c, nr: c.delete_many(["k1", "k2"], **_nr({}, nr))
    o["incr"] = lambda c, nr: c.incr("n", 2, **_nr({}, nr))
    o["decr"] = lambda c, nr: c.decr("n", 1, **_nr({}, nr))
    o["touch"] = lambda c, nr: c.touch("k1", 10, **_nr({}, nr))
    o["flush_all"] = lambda c, nr: c.flush_all(**_nr({}, nr))
    o["quit"] = lambda c, nr: c.quit()
    o["version"] = lambda c, nr: c.version()
    o["stats"] = lambda c, nr: c.stats()
    return o


OPS = _mk()
# default noreply per operation when the caller passes None: True = follows default_noreply, False = reply expected
FOLLOWS_DEFAULT = {"set", "add", "replace", "append", "prepend", "set_many", "delete", "delete_many", "touch", "flush_all",
                   "set_many_dup", "delete_many_dup"}
NEVER_NOREPLY = {"get", "get_miss", "gets", "get_many", "gets_many", "gat", "gats", "version", "stats", "get_many_dup"}
NOT_ON_HASH = {"version"}


def effective_noreply(name, nr, default_noreply=True):
    """does the call ask the server for noreply (independent statement of the documented defaults)"""
    if name == "quit":
        return True          # quit is sent without waiting for any reply
    if name in NEVER_NOREPLY:
        return False
    if nr is None:
        return default_noreply if name in FOLLOWS_DEFAULT else False
    return bool(nr)


ADDR1 = ("10.0.0.1", 11211)
ADDR2 = ("10.0.0.2", 11211)


def fresh_servers(n=1, clock=None):
    from vkit.net import notrace
    with notrace():   # fully concrete set-up: no need to pay for the tracer
        clock = clock or SClock(1000)
        servers = {}
        for addr in (ADDR1, ADDR2)[:n]:
            s = RefServer(clock=clock, name="%s:%d" % addr)
            for w in (b"set k1 0 0 2\r\nv1\r\n", b"set n 0 0 1\r\n5\r\n"):
                s.handle(w)
            s.cmdlog.clear()
            servers[addr] = s
    return servers, clock


def make_client(stack, net, **kw):
    """stack: client / pooled1 / pooled2 / hash1 / hash2 / hash1p (pooled inner clients)"""
    _clock.install()
    if stack == "client":
        return Client(ADDR1, socket_module=net, **kw)
    if stack == "pooled1":
        return PooledClient(ADDR1, socket_module=net, max_pool_size=1, **kw)
    if stack == "pooled2":
        return PooledClient(ADDR1, socket_module=net, max_pool_size=2, **kw)
    if stack == "hash1":
        return HashClient([ADDR1], socket_module=net, **kw)
    if stack == "hash2":
        return HashClient([ADDR1, ADDR2], socket_module=net, **kw)
    if stack == "hash1p":
        return HashClient([ADDR1], socket_module=net, use_pooling=True, max_pool_size=2, **kw)
    raise AssertionError(stack)


# ------------------------------------------------------------------------------------------------------
# generic driver: a history of calls on one client object under one fault plan; ownership oracle of C01

from vkit.net import FaultPlan, F_NONE, SOCKET_FAULTS, REPLY_FAULTS, Interrupt  # noqa: E402
from vkit.stats import ok, skip, viol  # noqa: E402
import pymemcache.client.base as _base  # noqa: E402

KINDS = (F_NONE,) + SOCKET_FAULTS + REPLY_FAULTS   # index 0 = no fault


def run_history(stack, calls, plan, cut, nservers=1, default_noreply=True, recv_size=4096, client_kw=None,
                after_call=None, expect_base_exc=None, eintr_at=None, check_leftover=True, net_opts=None):
    """calls: list of (op name, nr) with nr in (None, True, False).  Returns ("viol", msg) or ("ok", label, net, client).

    Oracle after every call (C01): no recv returned bytes owned by another call, no recv with nothing in flight,
    no recv by a noreply call, and no reply bytes left queued on a socket that is still open.
    """
    _clock.fresh()
    servers, sclock = fresh_servers(nservers)
    net = NetSim(servers, plan, cuts=(cut,) if cut else ())
    net.eintr_at = eintr_at
    for name, val in (net_opts or {}).items():
        setattr(net, name, val)
    _base.RECV_SIZE = recv_size
    kw = dict(client_kw or {})
    kw.setdefault("default_noreply", default_noreply)
    client = make_client(stack, net, **kw)
    outcomes = []
    for k, (name, nr) in enumerate(calls, 1):
        net.begin_call(k, noreply=effective_noreply(name, nr, default_noreply))
        try:
            res = OPS[name](client, nr)
            outcomes.append(("ret", res))
        except Exception as e:
            outcomes.append(("raise", e))
        except BaseException as e:
            if expect_base_exc is not None and isinstance(e, expect_base_exc):
                outcomes.append(("interrupted", e))
            else:
                raise
        if net.violations:
            return ("viol", "call %d (%s): %s" % (k, name, net.violations[0]))
        for s in net.sockets if check_leftover else ():
            if s.open and s.conn is not None and s.conn.queue:
                return ("viol", "after call %d (%s, outcome %s) a reply is left unread on a connection that stays "
                                "in use (socket %d)" % (k, name, outcomes[-1][0], s.sid))
        if after_call is not None:
            msg = after_call(k, name, outcomes[-1], net, client)
            if msg:
                return ("viol", msg)
    fired = plan is not None and plan.fired
    return ("ok", "fault-fired" if fired else "no-fault", net, client, outcomes)
