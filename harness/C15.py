"""C15 - serializers round-trip every value with its exact type.

h_simple  : PickleSerde / python_memcache_(de)serializer / LegacyWrappingSerde on symbolic bytes, str (symbolic
            code points), int (symbolic), bool, None: exact-type dispatch, flags, transmissible form, round trip.
h_compress: CompressedSerde around a stub inner serde and a *stub codec whose output is symbolic* (arbitrary codec
            behaviour, including expansion): threshold rule, COMPRESSED flag <=> codec output stored, stored form never
            longer than the uncompressed one, round trip through the recorded inverse.
h_samples : real pickle (protocols 0..5) and real zlib/bz2/lzma/identity codecs on enumerated representatives
            (pickle and the codecs are C code and reject symbolic proxies).
"""
import bz2
import lzma
import zlib

from harness.common import SHARD, concretize, load_known
from vkit.net import notrace
from vkit.stats import VIOL, SKIP, OK, ok, skip, viol
from pymemcache import serde as S

PROP = "C15"
FUNCTIONS = ["pymemcache.serde:_python_memcache_serializer", "pymemcache.serde:python_memcache_deserializer",
             "pymemcache.serde:PickleSerde.serialize", "pymemcache.serde:PickleSerde.deserialize",
             "pymemcache.serde:CompressedSerde.serialize", "pymemcache.serde:CompressedSerde.deserialize",
             "pymemcache.serde:LegacyWrappingSerde.__init__", "pymemcache.serde:get_python_memcache_serializer"]
KNOWN = load_known(PROP)
KIND = SHARD.get("kind", "bytes")
VL = SHARD.get("vl", 2)
PROTO = SHARD.get("proto", 5)


def _transmissible(data):
    if isinstance(data, bytes):
        return True
    if isinstance(data, str):
        for ch in data:
            if ord(ch) >= 128:
                return False
        return True
    return False


def _check_rt(sd, value, what):
    try:
        data, flags = sd.serialize("k", value)
    except Exception as e:
        return viol(what, "serialize raised", type(e).__name__, e)
    if not _transmissible(data):
        return viol(what, "serialized form is neither bytes nor ASCII text:", type(data).__name__)
    if not (isinstance(flags, int) and 0 <= flags and flags < 65536):
        return viol(what, "flags out of 16 bits:", flags)
    wire = data if isinstance(data, bytes) else data.encode("ascii")
    try:
        back = sd.deserialize("k", wire, flags)
    except Exception as e:
        return viol(what, "deserialize raised", type(e).__name__, e)
    if type(back) is not type(value) or back != value:
        return viol(what, "round trip of", repr(value), "gave", repr(back))
    return None


def h_simple(b: bytes, s: str, n: int, flag: bool, which: int) -> int:
    """
    pre: len(b) <= VL and len(s) <= VL
    pre: 0 <= which <= 1
    post: _ != 0
    """
    for ch in s:
        c = ord(ch)
        if 0xD800 <= c and c <= 0xDFFF:
            return skip("surrogate")
    if KIND == "bytes":
        value, want_flags = b, 0
    elif KIND == "str":
        value, want_flags = s, S.FLAG_TEXT
    elif KIND == "int":
        if not (-30 <= n and n <= 130):     # %d formatting realizes the int: this range is enumerated by the solver
            return skip("int-range")
        value, want_flags = n, S.FLAG_INTEGER
    elif KIND == "bool":
        value, want_flags = bool(flag), S.FLAG_PICKLE
    else:
        value, want_flags = None, S.FLAG_PICKLE
    sd = S.PickleSerde(pickle_version=PROTO) if which == 0 else S.CompressedSerde(
        serde=S.PickleSerde(pickle_version=PROTO), min_compress_len=0)
    try:
        data, flags = sd.serialize("k", value)
    except Exception as e:
        return viol(KIND, "serialize raised", type(e).__name__)
    if flags != want_flags:
        return viol(KIND, "flags", flags, "expected", want_flags)
    r = _check_rt(sd, value, KIND)
    if r is not None:
        return r
    # the legacy wrapper with no functions is the identity with flags 0
    lw = S.LegacyWrappingSerde(None, None)
    d2, f2 = lw.serialize("k", value)
    if d2 is not value or f2 != 0 or lw.deserialize("k", value, 7) is not value:
        return viol("LegacyWrappingSerde default is not the identity")
    return ok(KIND)


class Inner:
    """inner serde of the CompressedSerde under test: identity on bytes with a given flag word"""

    def __init__(self, flags):
        self.flags = flags

    def serialize(self, key, value):
        return value, self.flags

    def deserialize(self, key, value, flags):
        return (value, flags)


class Codec:
    def __init__(self, out):
        self.out = out
        self.inputs = []
        self.dec_calls = 0

    def compress(self, data):
        if not isinstance(data, bytes):
            raise TypeError("a bytes-like object is required, not '%s'" % type(data).__name__)
        self.inputs.append(data)
        return self.out

    def decompress(self, data):
        self.dec_calls += 1
        if data != self.out or not self.inputs:
            raise ValueError("not produced by this codec")
        return self.inputs[-1]


def h_compress(value: bytes, cout: bytes, thr: int, f0: int) -> int:
    """
    pre: len(value) <= 4 and len(cout) <= 5
    pre: -1 <= thr <= 5
    pre: 0 <= f0 <= 3
    post: _ != 0
    """
    inner_flags = (0, S.FLAG_PICKLE, S.FLAG_INTEGER, S.FLAG_TEXT)[concretize(f0, 0, 3)]
    codec = Codec(cout)
    sd = S.CompressedSerde(compress=codec.compress, decompress=codec.decompress, serde=Inner(inner_flags),
                           min_compress_len=thr)
    try:
        data, flags = sd.serialize("k", value)
    except Exception as e:
        return viol("serialize raised", type(e).__name__)
    attempted = len(codec.inputs) > 0
    should_attempt = thr > 0 and len(value) > thr
    if attempted != should_attempt:
        return viol("value length", len(value), "threshold", thr, ": compression attempted =", attempted)
    compressed = (flags // S.FLAG_COMPRESSED) % 2 == 1
    if flags - (S.FLAG_COMPRESSED if compressed else 0) != inner_flags:
        return viol("inner flags", inner_flags, "changed to", flags)
    if len(data) > len(value):
        return viol("stored form (", len(data), "bytes) is larger than the uncompressed one (", len(value), ")")
    if compressed:
        if not attempted or data is not codec.out and data != cout:
            return viol("COMPRESSED flag set but the stored form is not the codec output")
    else:
        if data is not value and data != value:
            return viol("COMPRESSED flag clear but the stored form is not the uncompressed value")
        if attempted and len(cout) < len(value):
            return viol("the codec output is smaller (", len(cout), "<", len(value), ") but was not stored")
    try:
        back = sd.deserialize("k", data, flags)
    except Exception as e:
        return viol("deserialize raised", type(e).__name__, "compressed =", compressed)
    if back[0] != value:
        return viol("round trip gave", back[0], "for", value)
    if codec.dec_calls != (1 if compressed else 0):
        return viol("decompress called", codec.dec_calls, "times, compressed =", compressed)
    return ok("compressed" if compressed else "plain")


class MyStr(str):
    pass


class MyInt(int):
    pass


class MyBytes(bytes):
    pass


SAMPLES = [b"", b"\x00\xff\r\n", "", "text", "téxt€\U0001d11e", 0, 1, -1, 255, 2 ** 31, -(2 ** 63), 10 ** 40, -(10 ** 3000),
           True, False, None, 0.0, -1.5, float("inf"), (1, "a", b"b", None), [1, [2, [3]]], {"k": {"n": (1, 2)}}, {1, 2, 3},
           frozenset((1,)), MyStr("sub"), MyInt(7), MyBytes(b"sub"), 3 + 4j, b"z" * 1000, "y" * 401, list(range(200)),
           bytes(range(256)) * 3, 12345678, "1234567890" * 50,
           # text that codecs and line handling treat specially: byte order marks, non-characters, NUL, line separators
           "\ufeff", "\ufeffname,price", "a\ufeff", "\ufffe\uffff", "\x00\r\n\t ", "\x85\u2028\u2029", "\ud7ff\ue000\U0010ffff"]


def _identity(x):
    return x


CODECS = ((zlib.compress, zlib.decompress), (bz2.compress, bz2.decompress), (lzma.compress, lzma.decompress),
          (_identity, _identity))


def h_samples(i: int, proto: int, codec: int, thr: int) -> int:
    """
    pre: 0 <= i < len(SAMPLES)
    pre: 0 <= proto <= 5
    pre: -1 <= codec <= 3
    pre: 0 <= thr <= 3
    post: _ != 0
    """
    i = concretize(i, 0, len(SAMPLES) - 1)
    proto = concretize(proto, 0, 5)
    codec = concretize(codec, -1, 3)
    thr = (0, 1, 10, 400)[concretize(thr, 0, 3)]
    with notrace():
        v = SAMPLES[i]
        if codec < 0:
            sd = S.PickleSerde(pickle_version=proto)
            what = "PickleSerde(protocol %d)" % proto
        else:
            comp, decomp = CODECS[codec]
            sd = S.CompressedSerde(compress=comp, decompress=decomp, serde=S.PickleSerde(pickle_version=proto),
                                   min_compress_len=thr)
            what = "CompressedSerde(codec %d, protocol %d, min_compress_len %d)" % (codec, proto, thr)
        r = _check_rt(sd, v, what)
        if r is not None:
            return r
        if codec >= 0:
            data, flags = sd.serialize("k", v)
            plain, pflags = S.PickleSerde(pickle_version=proto).serialize("k", v)
            plain = plain if isinstance(plain, bytes) else plain.encode("ascii")
            if len(data) > len(plain):
                return viol(what, "stored", len(data), "bytes for", len(plain), "uncompressed")
            marked = bool(flags & S.FLAG_COMPRESSED)
            stored = data if isinstance(data, bytes) else data.encode("ascii")
            if marked != (stored != plain or (codec == 3 and marked)):
                return viol(what, "COMPRESSED flag", marked, "does not match the stored form")
        return ok("sample")


def shards(tier):
    out = []
    thorough = tier == "thorough"
    T = 1200 if thorough else 400
    for kind in ("bytes", "str", "int", "bool", "none"):
        for proto in ((0, 2, 5) if not thorough else range(6)):
            if kind in ("bytes", "str", "int") and proto != 5 and not thorough:
                continue
            out.append(dict(fn="h_simple", timeout=T, shard=dict(kind=kind, vl=3 if thorough else 2, proto=proto)))
    out.append(dict(fn="h_compress", timeout=T, shard={}))
    out.append(dict(fn="h_samples", timeout=T, shard={}))
    return out


BOUNDS = {
    "quick": "symbolic bytes <= 2 bytes, str <= 2 symbolic code points, int in [-30, 130] (solver-enumerated: %d formatting realizes it), bool, None through "
             "PickleSerde and CompressedSerde(min_compress_len=0); CompressedSerde threshold/flag logic with a symbolic value "
             "<= 4 bytes, a symbolic codec output <= 5 bytes, min_compress_len -1..5 and 4 inner flag words (all symbolic); "
             "41 representative values (incl. byte-order marks, non-characters, line separators) (ints to 3000 digits, subclasses of str/int/bytes, nested containers, floats) x "
             "pickle protocols 0..5 x {pickle only, zlib, bz2, lzma, identity} x min_compress_len {0,1,10,400}",
    "thorough": "values up to 3 bytes / code points, every pickle protocol for the symbolic part",
}
OUTSIDE = ("arbitrary picklable objects and arbitrary long values as a universally quantified class (pickle and the codecs are "
           "C code: solver-enumerated representatives only)")
ASSUMPTIONS = ["the stub codec models arbitrary codec behaviour: compress returns a symbolic byte string of symbolic length, "
               "rejects non-bytes like the real codecs, decompress is its recorded inverse",
               "min_compress_len semantics as documented in the code: compress when len(serialized) > min_compress_len > 0"]
RULE = ("one path = one (type, content class) / (length orderings of value, codec output and threshold) class or one "
        "enumerated representative; non-trivial when serialize and deserialize ran and type-exact equality, the flag word "
        "and the stored length were checked")
