"""C18 - FallbackClient: reads fall through in order, writes touch only the primary.

Real code: every method of pymemcache.fallback.FallbackClient over 1..4 scripted caches that follow the
Client contract for a miss (get -> None, gets -> (None, None), get_many/gets_many -> {}).
"""
from harness.common import SHARD, concretize, bit, load_known
from vkit.stats import VIOL, SKIP, OK, ok, skip, viol

from pymemcache.fallback import FallbackClient

PROP = "C18"
FUNCTIONS = ["pymemcache.fallback:FallbackClient." + m for m in (
    "get", "gets", "get_many", "gets_many", "set", "add", "replace", "append", "prepend", "cas", "delete",
    "incr", "decr", "touch", "flush_all")]
KNOWN = load_known(PROP)
NC = SHARD.get("nc", 2)

READS = ("get", "gets", "get_many", "gets_many")
WRITES = ("set", "add", "replace", "append", "prepend", "cas", "delete", "incr", "decr", "touch", "flush_all")


class Many:
    """non-empty multi-key answer (a dict would hash the symbolic key; FallbackClient only tests truthiness)"""

    def __init__(self, items):
        self.items_ = items

    def __len__(self):
        return len(self.items_)


class Cache:
    """scripted cache with the Client signatures; records every call"""

    def __init__(self, idx, hit, falsy=0):
        self.idx = idx
        self.hit = hit
        self.falsy = falsy      # 0: truthy value; 1: b""; 2: 0  (falsy values are still hits for single-key reads)
        self.calls = []

    def val(self):
        if self.falsy == 1:
            return b""
        if self.falsy == 2:
            return 0
        return ("value", self.idx)

    # reads
    def get(self, key, default=None):
        self.calls.append(("get", key))
        return self.val() if self.hit else default

    def gets(self, key, default=None, cas_default=None):
        self.calls.append(("gets", key))
        return (self.val(), ("cas", self.idx)) if self.hit else (default, cas_default)

    def get_many(self, keys):
        self.calls.append(("get_many", keys))
        return Many([(keys, ("value", self.idx))]) if self.hit else {}

    def gets_many(self, keys):
        self.calls.append(("gets_many", keys))
        return Many([(keys, (("value", self.idx), ("cas", self.idx)))]) if self.hit else {}

    # writes (Client signatures)
    def set(self, key, value, expire=0, noreply=None, flags=None):
        self.calls.append(("set", key, value, expire, noreply))

    def add(self, key, value, expire=0, noreply=None, flags=None):
        self.calls.append(("add", key, value, expire, noreply))

    def replace(self, key, value, expire=0, noreply=None, flags=None):
        self.calls.append(("replace", key, value, expire, noreply))

    def append(self, key, value, expire=0, noreply=None, flags=None):
        self.calls.append(("append", key, value, expire, noreply))

    def prepend(self, key, value, expire=0, noreply=None, flags=None):
        self.calls.append(("prepend", key, value, expire, noreply))

    def cas(self, key, value, cas, expire=0, noreply=False, flags=None):
        self.calls.append(("cas", key, value, cas, expire, noreply))

    def delete(self, key, noreply=None):
        self.calls.append(("delete", key, noreply))

    def incr(self, key, value, noreply=False):
        self.calls.append(("incr", key, value, noreply))

    def decr(self, key, value, noreply=False):
        self.calls.append(("decr", key, value, noreply))

    def touch(self, key, expire=0, noreply=None):
        self.calls.append(("touch", key, expire, noreply))

    def flush_all(self, delay=0, noreply=None):
        self.calls.append(("flush_all", delay, noreply))


def h_read(op: int, hits: int, key: bytes, falsy: int) -> int:
    """
    pre: 0 <= op <= 3
    pre: 0 <= hits < 2 ** NC
    pre: len(key) <= 2
    pre: 0 <= falsy <= 2
    post: _ != 0
    """
    name = READS[concretize(op, 0, 3)]
    falsy = concretize(falsy, 0, 2)
    caches = [Cache(i, bit(hits, i), falsy) for i in range(NC)]
    fc = FallbackClient(caches)
    arg = key if name in ("get", "gets") else [key]
    try:
        got = getattr(fc, name)(arg)
    except Exception as e:
        return viol("read raised", type(e).__name__)
    first = None
    for i in range(NC):
        if caches[i].hit:
            first = i
            break
    if "C18-gets-fallthrough" in KNOWN and name == "gets":
        return skip("known-finding-region")
    last = first if first is not None else NC - 1
    for i in range(NC):
        want = 1 if i <= last else 0
        if len(caches[i].calls) != want:
            return viol(name, "hits", [c.hit for c in caches], ": cache", i, "was consulted", len(caches[i].calls),
                        "times, expected", want)
        if want and (caches[i].calls[0][0] != name or caches[i].calls[0][1] is not arg):
            return viol(name, "forwarded wrong call", caches[i].calls[0])
    if first is None:
        # nothing found anywhere: any "miss" answer is fine (None, (None, None), empty container)
        if got is None or got == (None, None) or (not isinstance(got, tuple) and len(got) == 0):
            return ok("miss")
        return viol(name, "with no hit returned", got)
    if name == "get":
        want_val = caches[first].val()
    elif name == "gets":
        want_val = (caches[first].val(), ("cas", first))
    else:
        if not isinstance(got, Many):
            return viol(name, "did not return the first non-empty answer:", got)
        inner = ("value", first) if name == "get_many" else (("value", first), ("cas", first))
        if got.items_[0][1] != inner:
            return viol(name, "returned the answer of another cache:", got.items_)
        return ok("hit-many")
    if got != want_val or type(got) is not type(want_val):
        return viol(name, "hits", [c.hit for c in caches], "returned", got, "expected the first hit", want_val)
    return ok("hit")


def h_write(op: int, key: bytes, value: bytes, expire: int, noreply: bool, delta: int, casid: int) -> int:
    """
    pre: 0 <= op <= 10
    pre: len(key) <= 2 and len(value) <= 2
    post: _ != 0
    """
    name = WRITES[concretize(op, 0, 10)]
    caches = [Cache(i, False) for i in range(NC)]
    fc = FallbackClient(caches)
    try:
        if name in ("set", "add", "replace", "append", "prepend"):
            getattr(fc, name)(key, value, expire, noreply)
            want = (name, key, value, expire, noreply)
        elif name == "cas":
            fc.cas(key, value, casid, expire, noreply)
            want = (name, key, value, casid, expire, noreply)
        elif name == "delete":
            fc.delete(key, noreply)
            want = (name, key, noreply)
        elif name in ("incr", "decr"):
            getattr(fc, name)(key, delta, noreply)
            want = (name, key, delta, noreply)
        elif name == "touch":
            fc.touch(key, expire, noreply)
            want = (name, key, expire, noreply)
        else:
            fc.flush_all(expire, noreply)
            want = (name, expire, noreply)
    except Exception as e:
        return viol("write raised", type(e).__name__)
    for i in range(1, NC):
        if caches[i].calls:
            return viol(name, "reached fallback cache", i, caches[i].calls)
    if len(caches[0].calls) != 1:
        return viol(name, "primary cache called", len(caches[0].calls), "times")
    got = caches[0].calls[0]
    if len(got) != len(want):
        return viol(name, "forwarded", got, "expected", want)
    for g, w in zip(got, want):
        same = (g is w) or (type(g) is type(w) and g == w) or (isinstance(w, (int, bool)) and g == w)
        if not same:
            return viol(name, "forwarded", got, "expected the caller's arguments", want)
    return ok("write")


def shards(tier):
    S = []
    for nc in (1, 2, 3, 4):
        S.append(dict(fn="h_read", shard=dict(nc=nc), timeout=300))
        S.append(dict(fn="h_write", shard=dict(nc=nc), timeout=300))
    return S


BOUNDS = {
    "quick": "1..4 caches (shards) x every hit/miss assignment (symbolic mask) x every read operation (symbolic) with a "
             "symbolic key <= 2 bytes and hit values that are truthy, b'' or 0; every mutating operation (symbolic) with symbolic key/value (<= 2 bytes), expire, "
             "noreply, delta, cas id (unbounded symbolic ints)",
    "thorough": "same as quick (the space is exhausted in the quick tier)",
}
OUTSIDE = "more than 4 caches; caches that raise; stats/quit/close (not key-addressed reads or mutations)"
ASSUMPTIONS = [
    "caches are scripted objects with the Client signatures and the Client contract for a miss: get -> None, "
    "gets -> (None, None), get_many/gets_many -> {} (an empty dict)",
    "a multi-key hit is a non-empty container object (FallbackClient only tests its truthiness)",
]
RULE = ("one path = one (operation, hit mask, argument class); non-trivial when the call ran and the per-cache call logs "
        "and the returned value were compared with the first-hit / primary-only specification")
