"""C03 - reply parsing does not depend on how the byte stream is split.

Unit level: the real _readline / _readvalue / _readsegment / _recv on a symbolic stream (every byte value),
symbolic initial buffer, every subset of cut positions (symbolic bit mask) and EINTR between any two pieces,
compared with (a) the one-piece run and (b) an independent specification over the concatenated stream.
Operation level: real public calls against RefServer replies containing a symbolic value, delivered with
symbolic cut positions / receive size 4 / EINTR, compared with the one-piece result.
"""
import errno

from harness.common import SHARD, concretize, bit, load_known
from harness import ops
from vkit.net import NetSim
from vkit.stats import VIOL, SKIP, OK, ok, skip, viol

import pymemcache.client.base as B
from pymemcache.exceptions import MemcacheUnexpectedCloseError

PROP = "C03"
FUNCTIONS = ["pymemcache.client.base:_readline", "pymemcache.client.base:_readvalue", "pymemcache.client.base:_readsegment",
             "pymemcache.client.base:_recv", "pymemcache.client.base:Client._fetch_cmd",
             "pymemcache.client.base:Client._extract_value", "pymemcache.client.base:Client._misc_cmd",
             "pymemcache.client.base:Client.raw_command", "pymemcache.client.base:Client.stats"]
KNOWN = load_known(PROP)

L = SHARD.get("l", 3)
BL = SHARD.get("b", 0)
READER = SHARD.get("reader", "line")
TOKEN = SHARD.get("token", "\r\n").encode("latin1")
SIZE = SHARD.get("size", 1)
SCEN = SHARD.get("scen", "get")
VL = SHARD.get("vl", 2)
RECV = SHARD.get("recv", 4096)


class FakeSock:
    def __init__(self, pieces, eintr_at=-1):
        self.pieces = [p for p in pieces if len(p) > 0]
        self.i = 0
        self.calls = 0
        self.eintr_at = eintr_at
        self.eintr_done = False

    def recv(self, n):
        c = self.calls
        self.calls += 1
        if not self.eintr_done and c == self.eintr_at:
            self.eintr_done = True
            raise InterruptedError(errno.EINTR, "injected")
        if self.i >= len(self.pieces):
            return b""
        p = self.pieces[self.i]
        self.i += 1
        return p

    def rest(self):
        out = b""
        for p in self.pieces[self.i:]:
            out = out + p
        return out


def _run(reader, sock, buf0):
    try:
        if reader == "line":
            buf, out = B._readline(sock, buf0)
        elif reader == "value":
            buf, out = B._readvalue(sock, buf0, SIZE)
        else:
            buf, out = B._readsegment(sock, buf0, TOKEN)
    except MemcacheUnexpectedCloseError:
        return ("closed", None, None)
    return ("ok", out, buf + sock.rest())


def _spec(reader, total):
    if reader == "value":
        if len(total) < SIZE + 2:
            return ("closed", None, None)
        return ("ok", total[:SIZE], total[SIZE + 2:])
    if reader == "segment":
        # an error reply (first line starts with ERROR / CLIENT_ERROR / SERVER_ERROR) is one line and is never followed
        # by the end token; a stream that is still a proper prefix of such a word cannot be decided
        errs = (b"ERROR", b"CLIENT_ERROR", b"SERVER_ERROR")
        is_err = False
        could_be = False
        for w in errs:
            if total[:len(w)] == w:
                is_err = True
            if len(total) < len(w) and w[:len(total)] == total:
                could_be = True
        if is_err:
            pos = total.find(b"\r\n")
            if pos < 0:
                return ("closed", None, None)
            return ("ok", total[:pos], total[pos + 2:])
        if could_be:
            return ("closed", None, None)
    tok = b"\r\n" if reader == "line" else TOKEN
    pos = total.find(tok)
    if pos < 0:
        return ("closed", None, None)
    return ("ok", total[:pos], total[pos + len(tok):])


FIXED_MASK = SHARD.get("mask")


def h_reader(stream: bytes, buf0: bytes, mask: int, eintr: int) -> int:
    """
    pre: len(stream) == L and len(buf0) == BL
    pre: 0 <= mask < 2 ** max(L - 1, 0)
    pre: -1 <= eintr <= L
    post: _ != 0
    """
    if FIXED_MASK is not None:
        if mask != 0:
            return skip("mask-is-a-shard-parameter")
        mask = FIXED_MASK
    pieces = []
    start = 0
    for i in range(1, L):
        if bit(mask, i - 1):
            pieces.append(stream[start:i])
            start = i
    pieces.append(stream[start:L])
    whole = _run(READER, FakeSock([stream]), buf0)
    split = _run(READER, FakeSock(pieces, eintr), buf0)
    spec = _spec(READER, buf0 + stream)
    if "C03-readsegment" in KNOWN and READER == "segment" and (len(pieces) > 1 or BL > 0):
        return skip("known-finding-region")
    for name, got in (("one-piece run", whole), ("split run", split)):
        if got[0] != spec[0]:
            return viol(READER, "pieces", pieces, "buf", buf0, ":", name, "ended", got[0], "but the stream", spec[0])
        if got[0] == "ok" and (got[1] != spec[1] or got[2] != spec[2]):
            return viol(READER, "pieces", pieces, "buf", buf0, ":", name, "returned", got[1:], "expected", spec[1:])
    return ok("closed" if spec[0] == "closed" else "parsed")


# ---------------------------------------------------------------------------------------------- operations

class TagSerde:
    def serialize(self, key, value):
        return value, 0

    def deserialize(self, key, value, flags):
        return (value, flags)


def _scenario(c, value):
    s = SCEN
    if s == "get":
        return c.get("k1")
    if s == "gets":
        return c.gets("k1")
    if s == "get_many":
        return sorted(c.get_many(["k1", "n", "zz"]).items())
    if s == "gets_many":
        return sorted(c.gets_many(["n", "k1"]).items())
    if s == "gat":
        return c.gat("k1", 100)
    if s == "miss":
        return c.get("zz", "dflt")
    if s == "stats":
        return sorted(c.stats().items())
    if s == "set":
        return c.set("k1", value, noreply=False)
    if s == "add":
        return c.add("k1", value, noreply=False)
    if s == "set_many":
        return c.set_many({"a": value, "k1": b"x"}, noreply=False)
    if s == "delete_many":
        return c.delete_many(["k1", "zz"], noreply=False)
    if s == "incr":
        return c.incr("n", 7)
    if s == "touch":
        return c.touch("k1", 5, noreply=False)
    if s == "version":
        return c.version()
    if s == "raw_version":
        return c.raw_command(b"version")
    if s == "raw_get":
        return c.raw_command(b"get k1", end_tokens=b"END\r\n")
    if s == "raw_config":
        return c.raw_command(b"config get cluster", end_tokens=b"\n\r\nEND\r\n")
    if s == "raw_stats":
        return c.raw_command("stats", end_tokens="END\r\n")
    if s == "raw_error":
        return c.raw_command(b"bogus command", end_tokens=b"\n\r\nEND\r\n")
    raise AssertionError(s)


EMAX = SHARD.get("emax", 2)
CMIN = SHARD.get("cmin", 0)
CMAX = SHARD.get("cmax", 48)
MARK = b"\x01"
STORE_SCENS = ("set", "add", "set_many")


def _once(value, cuts, recv, eintr):
    """run the scenario once.  The server model runs untraced on concrete data holding a placeholder of the
    same length; the symbolic value is spliced into the reply bytes where the placeholder appears."""
    servers, _ = ops.fresh_servers(1)
    srv = servers[ops.ADDR1]
    placeholder = MARK * VL
    srv.items[b"k1"].value = placeholder
    srv.cluster_config = (12, b"host1|10.0.0.1|11211 host2|10.0.0.2|11211")
    net = NetSim(servers, None, cuts=cuts, concrete=True)
    if VL > 0 and SCEN not in STORE_SCENS:
        def splice(reply):
            i = reply.find(placeholder)
            if i < 0:
                return reply
            return reply[:i] + value + reply[i + VL:]
        net.reply_hook = splice
    net.eintr_at = eintr
    B.RECV_SIZE = recv
    c = ops.make_client("client", net)
    net.begin_call(1)
    try:
        r = ("ret", _scenario(c, placeholder if SCEN in STORE_SCENS else value))
    except Exception as e:
        r = ("raise", type(e).__name__)
    if net.violations:
        r = ("monitor", net.violations[0])
    return r, net


def h_op(value: bytes, c1: int, eintr: int) -> int:
    """
    pre: len(value) == VL
    pre: CMIN <= c1 <= CMAX
    pre: -1 <= eintr <= EMAX
    post: _ != 0
    """
    whole, _ = _once(value, (), 4096, None)
    split, net = _once(value, (c1,) if c1 > 0 else (), RECV, eintr if eintr >= 0 else None)
    if "C03-readsegment" in KNOWN and SCEN.startswith("raw_"):
        return skip("known-finding-region")
    if whole != split:
        return viol(SCEN, "value", value, "cut", c1, "recv size", RECV, "eintr", eintr, ": one piece ->", whole,
                    "split ->", split)
    if whole[0] == "monitor":
        return viol(SCEN, whole[1])
    if SCEN in ("get", "gat") and whole != ("ret", value):
        return viol(SCEN, "returned", whole, "for stored value", value)
    return ok(whole[0])


READERS = (("line", {}), ("value", {}), ("segment", {"token": "\r\n"}), ("segment", {"token": "END\r\n"}),
           ("segment", {"token": "\n\r\nEND\r\n"}), ("segment", {"token": "\n"}))
SCENS = ("get", "gets", "get_many", "gets_many", "gat", "miss", "stats", "set", "add", "set_many", "delete_many", "incr",
         "touch", "version", "raw_version", "raw_get", "raw_config", "raw_stats", "raw_error")


def shards(tier):
    S = []
    thorough = tier == "thorough"
    maxl = 5 if thorough else 4
    maxb = 2 if thorough else 1
    T = 1500 if thorough else 400

    def add_reader(reader, l, b, extra):
        if l >= 4 or (l >= 3 and reader == "segment"):
            for m in range(2 ** (l - 1)):
                S.append(dict(fn="h_reader", timeout=T, shard=dict(reader=reader, l=l, b=b, mask=m, **extra)))
        else:
            S.append(dict(fn="h_reader", timeout=T, shard=dict(reader=reader, l=l, b=b, **extra)))

    for reader, extra in READERS:
        tok = extra.get("token", "")
        top = maxl
        if reader == "segment":
            # the error-reply rule of _readsegment multiplies the branches: 4-byte streams are thorough-only
            top = 4 if thorough else 3
        for l in range(0, top + 1):
            for b in range(0, maxb + 1):
                if reader == "value":
                    for size in range(0, min(max(l + b - 1, 0), 3 if not thorough else 4) + 1):
                        if thorough and l == 5 and b == 2 and size not in (0, 3):
                            continue
                        add_reader(reader, l, b, dict(size=size))
                else:
                    if len(tok) > 2 and l + b < 2:
                        continue
                    add_reader(reader, l, b, extra)
    for scen in SCENS:
        fetch = scen in ("get", "gets", "get_many", "gets_many", "gat", "raw_get")
        multi = scen in ("get_many", "gets_many")
        if thorough:
            vls = (0, 1, 2, 3, 5) if fetch else (2,)
        else:
            vls = {"get": (0, 2, 3, 5), "raw_get": (0, 2)}.get(scen, (2,))
        for vl in vls:
            for recv in (4096, 4):
                if recv == 4 and not thorough and not (scen in ("get", "raw_get", "stats", "set_many", "version") and vl in (2, 3, 5)):
                    continue
                ranges = ((0, 12), (13, 24), (25, 36), (37, 48)) if (multi or (thorough and fetch)) else ((0, 48),)
                for lo, hi in ranges:
                    S.append(dict(fn="h_op", timeout=T, weight=3 if (multi or scen == "raw_get") else 1,
                                  shard=dict(scen=scen, vl=vl, recv=recv, cmin=lo, cmax=hi)))
        if scen == "get":
            # EINTR while the body of a value larger than the (scaled) receive size is being read
            S.append(dict(fn="h_op", timeout=T, shard=dict(scen="get", vl=5, recv=4, cmin=0, cmax=0, emax=9)))
    return S


BOUNDS = {
    "quick": "readers: stream of 0..4 (0..3 for _readsegment) symbolic bytes (all 256 values) x initial buffer of 0..1 symbolic bytes x every subset "
             "of cut positions (symbolic mask) x EINTR before any recv (symbolic), _readvalue sizes 0..4, _readsegment end "
             "tokens {CRLF, LF, END CRLF, LF CRLF END CRLF}; operations: 18 scenarios (fetch/store/delete/incr/touch/stats/"
             "version/raw_command) with a symbolic stored value of 0, 2 or 3 bytes, one symbolic cut position in 0..48 "
             "(plus cuts every 4 bytes in the receive-size-4 shards), EINTR at a symbolic recv",
    "thorough": "streams up to 5 (4 for _readsegment), initial buffer up to 2, values 0,1,2,3,5 bytes, receive size 4 "
                "for every scenario",
}
OUTSIDE = ("streams longer than 6-9 bytes at unit level; more than two cuts at operation level (the receive size 4 runs cut "
           "every 4 bytes in addition); real 4096-byte pieces (the receive size is scaled)")
ASSUMPTIONS = ["base.RECV_SIZE occurs only as the argument of _recv(sock, RECV_SIZE) and is rebound in the checking process",
               "the independent specification of a reader is find()/slicing over the concatenated stream",
               "operation level: the server model runs untraced on a placeholder value; the symbolic value is spliced into "
               "the reply bytes where the placeholder appears (store scenarios send the concrete placeholder)"]
RULE = ("one path = one (content class, cut subset, EINTR point) combination; non-trivial when both the one-piece and the "
        "split run completed and were compared with each other and with the specification")
