"""C17 - RetryingClient retries exactly as configured.

Real code: pymemcache.client.retrying.RetryingClient.__init__/_retry/__getattr__, _ensure_tuple_argument.
Symbolic: attempts, the outcome of every attempt, retry_delay; shard: the two class masks and the spelling.
"""
from harness.common import SHARD, concretize, bit
from vkit.stats import VIOL, SKIP, OK, ok, skip, viol

import pymemcache.client.retrying as R

PROP = "C17"
FUNCTIONS = [
    "pymemcache.client.retrying:RetryingClient.__init__",
    "pymemcache.client.retrying:RetryingClient._retry",
    "pymemcache.client.retrying:RetryingClient.__getattr__",
    "pymemcache.client.retrying:_ensure_tuple_argument",
]

RF = SHARD.get("rf", 0)       # bit i set: class i listed in retry_for
DN = SHARD.get("dn", 0)       # bit i set: class i listed in do_not_retry_for
SPELL = SHARD.get("spell", 0)  # 0 tuple, 1 list, 2 set, 3 None-when-empty
MAXA = SHARD.get("maxa", 3)


class Base(Exception):
    pass


class Sub1(Base):
    pass


class Sub2(Base):
    pass


class Other(Exception):
    pass


CLASSES = (Base, Sub1, Sub2, Other)
# independent statement of the hierarchy: ISA[k] = indices of the classes an instance of class k matches
ISA = ((0,), (0, 1), (0, 2), (3,))


def _container(mask, spell):
    members = [CLASSES[i] for i in range(4) if mask & (1 << i)]
    if not members and spell == 3:
        return None
    if spell == 1:
        return list(members)
    if spell == 2:
        return set(members)
    return tuple(members)


class Scripted:
    """inner client: attempt i of `get` behaves as outcomes[i] says (0 = success, k = raise CLASSES[k-1])"""

    def __init__(self, outcomes):
        self.outcomes = outcomes
        self.calls = 0
        self.raised = []
        self.args = []

    def get(self, *a, **k):
        i = self.calls
        self.calls += 1
        self.args.append((a, k))
        o = concretize(self.outcomes[i], 0, 4) if i < len(self.outcomes) else 0
        if o == 0:
            return ("value", i)
        e = CLASSES[o - 1]("attempt %d" % i)
        self.raised.append(e)
        raise e


class Sleeps:
    def __init__(self):
        self.log = []

    def __call__(self, d):
        self.log.append(d)


def _matches(o, mask):
    """does an exception of outcome class o match any class listed in mask"""
    for idx in ISA[o - 1]:
        if mask & (1 << idx):
            return True
    return False


def h_retry(attempts: int, o1: int, o2: int, o3: int, o4: int, o5: int, delay: int) -> int:
    """
    pre: 1 <= attempts <= MAXA
    pre: 0 <= o1 <= 4 and 0 <= o2 <= 4 and 0 <= o3 <= 4 and 0 <= o4 <= 4 and 0 <= o5 <= 4
    pre: 0 <= delay <= 3
    post: _ != 0
    """
    attempts = concretize(attempts, 1, MAXA)
    outcomes = [o1, o2, o3, o4, o5]
    inner = Scripted(outcomes)
    sleeps = Sleeps()
    R.sleep = sleeps
    try:
        rc = R.RetryingClient(inner, attempts=attempts, retry_delay=delay,
                              retry_for=_container(RF, SPELL), do_not_retry_for=_container(DN, SPELL))
    except Exception as e:
        return viol("valid configuration rejected:", type(e).__name__, e)
    got_exc = None
    got = None
    try:
        got = rc.get("k", default=7)
    except Exception as e:
        got_exc = e
    # ---- independent specification
    exp_calls = 0
    exp_sleeps = 0
    exp_result = None
    exp_raise_idx = None   # index (among raised exceptions) of the exception that must propagate
    nraised = 0
    for i in range(attempts):
        exp_calls += 1
        o = concretize(outcomes[i], 0, 4)
        if o == 0:
            exp_result = ("value", i)
            break
        nraised += 1
        last = i == attempts - 1
        retryable = (RF == 0 or _matches(o, RF)) and not (DN != 0 and _matches(o, DN))
        if last or not retryable:
            exp_raise_idx = nraised - 1
            break
        exp_sleeps += 1
    if inner.calls != exp_calls:
        return viol("inner calls", inner.calls, "expected", exp_calls, "outcomes", outcomes[:attempts], "rf", RF, "dn", DN)
    if len(sleeps.log) != exp_sleeps:
        return viol("sleeps", len(sleeps.log), "expected", exp_sleeps, "outcomes", outcomes[:attempts])
    for d in sleeps.log:
        if d != delay:
            return viol("slept", d, "expected retry_delay", delay)
    for a, k in inner.args:
        if a != ("k",) or k != {"default": 7}:
            return viol("arguments not forwarded unchanged:", a, k)
    if exp_raise_idx is None:
        if got_exc is not None:
            return viol("raised", type(got_exc).__name__, "expected result", exp_result)
        if got != exp_result:
            return viol("returned", got, "expected the first successful result", exp_result)
        return ok("returned")
    if got_exc is None:
        return viol("returned", got, "expected the final attempt's exception")
    if got_exc is not inner.raised[exp_raise_idx]:
        return viol("re-raised a different exception object than the final attempt's:", repr(got_exc),
                    "expected", repr(inner.raised[exp_raise_idx]))
    return ok("raised")


class NotExc:
    pass


BAD = SHARD.get("bad", 0)
WHERE = SHARD.get("where", 0)


def h_ctor(attempts: int, rf: int, dn: int) -> int:
    """
    Constructor validation: attempts < 1, a class in both lists, non-exception classes are rejected.
    pre: -2 <= attempts <= 3
    pre: 0 <= rf <= 15 and 0 <= dn <= 15
    post: _ != 0
    """
    bad, where, spell = BAD, WHERE, SPELL
    a = [CLASSES[i] for i in range(4) if bit(rf, i)]
    b = [CLASSES[i] for i in range(4) if bit(dn, i)]
    overlap = False
    for i in range(4):
        if bit(rf, i) and bit(dn, i):
            overlap = True
    attempts = concretize(attempts, -2, 3)
    extra = None
    if bad == 1:
        extra = NotExc            # a class that is not an exception
    elif bad == 2:
        extra = KeyboardInterrupt  # BaseException but not Exception
    if extra is not None:
        (a if where == 0 else b).append(extra)
    conv = (tuple, list, set)[spell]
    invalid = attempts < 1 or overlap or extra is not None
    try:
        R.RetryingClient(Scripted([0]), attempts=attempts, retry_for=conv(a), do_not_retry_for=conv(b))
    except ValueError:
        if not invalid:
            return viol("valid configuration rejected", attempts, rf, dn)
        return ok("rejected")
    except Exception as e:
        return viol("unexpected error kind at construction", type(e).__name__)
    if invalid:
        return viol("invalid configuration accepted: attempts", attempts, "rf", rf, "dn", dn, "bad", bad)
    return ok("accepted")


def shards(tier):
    S = []
    maxa = 5 if tier == "thorough" else 3
    pairs = [(rf, dn) for rf in range(16) for dn in range(16) if rf & dn == 0]
    for i, (rf, dn) in enumerate(pairs):
        S.append(dict(fn="h_retry", shard=dict(rf=rf, dn=dn, spell=(i % 4), maxa=maxa),
                      timeout=1500 if tier == "thorough" else 120))
    for bad in (0, 1, 2):
        for where in ((0,) if bad == 0 else (0, 1)):
            for spell in (0, 1, 2):
                S.append(dict(fn="h_ctor", shard=dict(bad=bad, where=where, spell=spell), timeout=400))
    return S


BOUNDS = {
    "quick": "attempts 1..3 x every outcome sequence over {success, Base, Sub1(Base), Sub2(Base), Other} (symbolic) x "
             "retry_delay 0..3 (symbolic) x all 81 disjoint (retry_for, do_not_retry_for) subset pairs (shards) with "
             "tuple/list/set/None spellings rotated over the pairs; constructor: attempts -2..3, all 256 mask pairs, "
             "non-exception / BaseException-only members, three spellings (all symbolic)",
    "thorough": "as quick with attempts 1..5",
}
OUTSIDE = "attempts > 5; wrapped methods other than a scripted `get`; exception hierarchies other than the 4-class one"
ASSUMPTIONS = [
    "`sleep` in the retrying module is rebound to a recorder inside the checking process",
    "the inner client is a scripted object whose `get` follows the symbolic outcome sequence",
]
RULE = ("one path = one (attempts, outcome prefix, delay) class decided by z3; non-trivial when the RetryingClient was "
        "constructed, the call ran and calls/sleeps/result-or-exception-identity were compared with the independent spec")
