"""C09 - a failed pooled connection is discarded and pool capacity is conserved.

(a) h_pooled: real PooledClient + ObjectPool + Client over NetSim; one faulty call per history (symbolic call,
    position, kind), symbolic idle gaps and pool_idle_timeout (virtual clock in pymemcache.pool), ignore_exc symbolic.
(b) h_pool_seq: the real ObjectPool driven directly by a symbolic sequence of get / release / destroy / clock
    advance with up to three objects checked out at once (what concurrent callers produce), against the invariant
    that an object is never handed out after it was removed or after it idled longer than idle_timeout.
"""
from harness.common import SHARD, concretize, load_known
from harness import ops
from vkit import clock as vclock
from vkit.net import NetSim, FaultPlan, F_NONE, F_TIMEOUT, F_RESET, F_EOF, F_OSERROR, R_ERROR, R_SERVER_ERROR, R_TRUNCATED
from vkit.stats import VIOL, SKIP, OK, ok, skip, viol
import pymemcache.client.base as B
from pymemcache.client.base import PooledClient
from pymemcache.pool import ObjectPool

PROP = "C09"
FUNCTIONS = ["pymemcache.pool:ObjectPool.get", "pymemcache.pool:ObjectPool.release", "pymemcache.pool:ObjectPool.destroy",
             "pymemcache.pool:ObjectPool.clear", "pymemcache.pool:ObjectPool.get_and_release",
             "pymemcache.client.base:PooledClient.get", "pymemcache.client.base:PooledClient.set",
             "pymemcache.client.base:PooledClient.delete_many", "pymemcache.client.base:PooledClient._create_client",
             "pymemcache.client.base:Client._fetch_cmd", "pymemcache.client.base:Client._store_cmd",
             "pymemcache.client.base:Client._misc_cmd", "pymemcache.client.base:Client.close"]
KNOWN = load_known(PROP)

MAXPOOL = SHARD.get("maxpool", 1)          # 0 = unbounded
SEQ = tuple(SHARD.get("seq", ("get", "set", "get")))
KINDS = (F_TIMEOUT, F_RESET, F_EOF, F_OSERROR, R_ERROR, R_SERVER_ERROR, R_TRUNCATED)
NOPS = SHARD.get("nops", 6)


def _do(c, name):
    if name == "get":
        return c.get("k1")
    if name == "set":
        return c.set("k1", b"zz", noreply=False)
    if name == "get_many":
        return c.get_many(["k1", "n"])
    if name == "quit":
        return c.quit()
    if name == "incr":
        return c.incr("n", 1, noreply=False)
    if name == "touch":
        return c.touch("k1", 10, noreply=False)
    return c.delete_many(["k1", "zz"], noreply=False)


def h_pooled(which: int, fat: int, fk: int, g1: int, g2: int, tmo: int, ignore_exc: bool, dur: int) -> int:
    """
    dur: every recv takes `dur` time units (a call has a duration; idle time counts from the return to the pool).
    pre: 0 <= dur <= 2
    pre: 0 <= which <= len(SEQ)
    pre: 0 <= fat <= 5
    pre: 0 <= fk < len(KINDS)
    pre: 0 <= g1 <= 6 and 0 <= g2 <= 6
    pre: 0 <= tmo <= 4
    post: _ != 0
    """
    clk = vclock.fresh(100)
    B.RECV_SIZE = 4096
    which = concretize(which, 0, len(SEQ))      # index of the faulty call; len(SEQ) = no fault
    kind = KINDS[concretize(fk, 0, len(KINDS) - 1)]
    servers, _ = ops.fresh_servers(1)
    net = NetSim(servers, None)
    net.check_failed_reuse = True
    net.clock = clk
    net.recv_delay = dur
    c = PooledClient(ops.ADDR1, socket_module=net, max_pool_size=MAXPOOL or None, pool_idle_timeout=tmo,
                     ignore_exc=ignore_exc)
    gaps = (0, g1, g2) + (0,) * max(0, len(SEQ) - 3)
    prev_sock = None          # socket used by the previous call, if that call left it healthy
    for k, name in enumerate(SEQ):
        clk.advance(gaps[k])
        plan = FaultPlan(at=fat, kind=kind) if k == which else None
        net.plan = plan
        net.ncalls = 0
        net.ncmds = 0
        net.begin_call(k + 1)
        ev0 = len(net.events)
        try:
            _do(c, name)
            raised = None
        except RuntimeError as e:
            return viol("maxpool", MAXPOOL, SEQ, "call", k + 1, "raised RuntimeError:", e)
        except Exception as e:
            raised = e
        if net.violations:
            return viol("maxpool", MAXPOOL, SEQ, "faulty call", which, "kind", kind, "at", fat, ":", net.violations[0])
        if len(c.client_pool.used) != 0:
            return viol("after call", k + 1, name, len(c.client_pool.used), "connections are still checked out")
        used_now = []
        for (_, sid, op, _) in net.events[ev0:]:
            if op in ("sendall", "recv", "connect") and sid is not None and sid not in used_now:
                used_now.append(sid)
        fired = plan is not None and plan.fired
        if fired:
            for sid in used_now:
                if net.sockets[sid].open:
                    return viol("maxpool", MAXPOOL, SEQ, "call", k + 1, "failed (kind", kind, "at", fat, ") but socket", sid,
                                "is still open", "(ignore_exc=%s)" % ignore_exc)
                net.sockets[sid].failed_call = True
            prev_sock = None
            continue
        if raised is not None:
            return viol("call", k + 1, name, "raised", type(raised).__name__, "without an injected fault")
        # healthy call: reuse rule against the previous healthy socket
        if len(used_now) != 1:
            return viol("a healthy call used", len(used_now), "sockets")
        sid = used_now[0]
        if prev_sock is not None:
            gap = gaps[k]
            expired = tmo > 0 and gap > tmo
            if not expired and sid != prev_sock:
                return viol("maxpool", MAXPOOL, "idle gap", gap, "timeout", tmo, ": healthy connection", prev_sock,
                            "was not reused (socket", sid, "opened instead)")
            if expired:
                if sid == prev_sock:
                    return viol("idle gap", gap, "> pool_idle_timeout", tmo, "but connection", prev_sock, "was reused")
                if net.sockets[prev_sock].open:
                    return viol("idle gap", gap, "> pool_idle_timeout", tmo, "but connection", prev_sock, "was not closed")
        prev_sock = sid
        if name == "quit":
            # quit gives its connection up: it is closed, not returned to the pool
            if net.sockets[sid].open:
                return viol("quit left connection", sid, "open")
            prev_sock = None
    return ok("fault" if which < len(SEQ) else "no-fault")


# ---------------------------------------------------------------------------------------------- pool level

class Obj:
    def __init__(self, n):
        self.n = n
        self.closed = 0
        self.released_at = None


def h_pool_seq(a1: int, a2: int, a3: int, a4: int, a5: int, a6: int, a7: int, tmo: int, d: int) -> int:
    """
    actions: 0 get, 1 release oldest checked-out, 2 release newest, 3 destroy oldest, 4 advance clock by d
    (sequences containing an action that cannot apply, or two clock advances in a row, are pruned)
    pre: 0 <= a1 <= 4 and 0 <= a2 <= 4 and 0 <= a3 <= 4 and 0 <= a4 <= 4 and 0 <= a5 <= 4 and 0 <= a6 <= 4 and 0 <= a7 <= 4
    pre: 0 <= tmo <= 3
    pre: 0 <= d <= 5
    post: _ != 0
    """
    clk = vclock.fresh(50)
    created = []

    def creator():
        o = Obj(len(created))
        created.append(o)
        return o

    def after_remove(o):
        o.closed += 1

    pool = ObjectPool(creator, after_remove=after_remove, max_size=MAXPOOL or None, idle_timeout=tmo)
    held = []
    acts = [a1, a2, a3, a4, a5, a6, a7][:NOPS]
    prev = None
    for a in acts:
        a = concretize(a, 0, 4)
        if (a in (1, 2, 3) and not held) or (a == 2 and len(held) < 2) or (a == 4 and prev == 4) or (a == 0 and len(held) >= 3):
            return skip("pruned-sequence")
        prev = a
        if a == 0:
            try:
                o = pool.get()
            except RuntimeError:
                if MAXPOOL and len(held) >= MAXPOOL:
                    continue      # documented "Too many objects"
                return viol("pool.get() raised Too many objects with", len(held), "checked out, max", MAXPOOL)
            if o.closed:
                return viol("pool handed out object", o.n, "after it was closed")
            for h in held:
                if h is o:
                    return viol("pool handed out object", o.n, "twice")
            if o.released_at is not None and tmo > 0 and clk.now - o.released_at > tmo:
                return viol("pool handed out object", o.n, "that idled", clk.now - o.released_at, "> idle_timeout", tmo)
            o.released_at = None
            held.append(o)
        elif a in (1, 2):
            if not held:
                continue
            o = held.pop(0 if a == 1 else -1)
            pool.release(o)
            o.released_at = clk.now
        elif a == 3:
            if not held:
                continue
            o = held.pop(0)
            pool.destroy(o)
            if o.closed != 1:
                return viol("destroyed object", o.n, "closed", o.closed, "times")
        else:
            clk.advance(d)
        if len(pool.used) != len(held):
            return viol("pool.used has", len(pool.used), "entries but", len(held), "objects are checked out")
        if MAXPOOL and len(pool.used) + len(pool.free) > MAXPOOL:
            return viol("pool holds", len(pool.used) + len(pool.free), "objects, max", MAXPOOL)
        seen = []
        for o in list(pool.used) + list(pool.free):
            for s in seen:
                if s is o:
                    return viol("object", o.n, "listed twice in the pool")
            seen.append(o)
            if o.closed:
                return viol("closed object", o.n, "is still listed in the pool")
    for o in created:
        if o.closed > 1:
            return viol("object", o.n, "closed", o.closed, "times")
    return ok("seq")


def shards(tier):
    S = []
    thorough = tier == "thorough"
    seqs = [("get", "set", "get"), ("set", "get", "get_many"), ("get", "get", "set"), ("delete_many", "get", "set"),
            ("quit", "incr", "get"), ("touch", "quit", "set")]
    if thorough:
        seqs += [("set", "set", "get"), ("get_many", "delete_many", "get"), ("get", "set", "get", "get"),
                 ("incr", "touch", "quit"), ("quit", "quit", "get")]
    for mp in ((1, 2, 0) if thorough else (1, 0)):
        for seq in seqs:
            S.append(dict(fn="h_pooled", timeout=1500 if thorough else 500, shard=dict(maxpool=mp, seq=list(seq))))
    for mp in (1, 2, 3, 0):
        S.append(dict(fn="h_pool_seq", timeout=2400 if thorough else 500,
                      shard=dict(maxpool=mp, nops=7 if thorough else 6)))
    return S


BOUNDS = {
    "quick": "PooledClient: 3-call histories (6 operation sequences over get/set/get_many/delete_many/incr/touch/quit) x max_pool_size {1, unbounded}; one faulty call (symbolic "
             "index or none) with symbolic position 0..5 and kind {timeout, reset, EOF, OSError, ERROR, SERVER_ERROR, truncated}; "
             "idle gaps 0..6 before calls 2 and 3 and pool_idle_timeout 0..4 symbolic; ignore_exc symbolic. ObjectPool: every "
             "sequence of 6 actions over {get, release oldest/newest, destroy, advance clock by d (0..5) / by 1}, idle_timeout "
             "0..3 symbolic, max_size {1,2,3,unbounded}",
    "thorough": "adds max_pool_size 2, 5 more operation sequences (one of 4 calls), 7-action pool sequences",
}
OUTSIDE = "more than one faulty call per history (C01 thorough covers follow-ups); more than 3 objects checked out at once"
ASSUMPTIONS = ["pymemcache.pool.time is rebound to a virtual clock inside the checking process",
               "a call 'failed' when an injected socket-level fault or an ERROR/SERVER_ERROR/truncated reply struck it",
               "NetSim/RefServer as in C01"]
RULE = ("one path = one (faulty call, position, kind, gap-vs-timeout ordering, ignore_exc) class, or one pool action sequence "
        "with its clock orderings; non-trivial when the whole history ran and the closed/reused/checked-out rules were evaluated")
