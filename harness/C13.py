"""C13 - HashClient failover: bounded probing, eviction, rerouting, recovery.

Real HashClient (_get_client, _safely_run_func, _safely_run_set_many, _mark_failed_server, remove_server, _retry_dead)
with a scripted per-server client_class, a virtual clock in pymemcache.client.hash and a table-driven hasher that
reproduces the real rendezvous placement for every subset of the servers (computed from the real RendezvousHash at
import time, so that murmur3 is not re-executed under the tracer).
Symbolic: the event of every step (get on a key of server i / set_many / server i starts or stops failing), the
clock advance before every step, retry_timeout < dead_timeout, the traffic gap of the recovery phase.
"""
import itertools
import socket as _socket

from harness.common import SHARD, concretize, load_known
from vkit import clock as vclock
from vkit.stats import VIOL, SKIP, OK, ok, skip, viol
import pymemcache.client.hash as H
from pymemcache.client.hash import HashClient
from pymemcache.client.rendezvous import RendezvousHash
from pymemcache.exceptions import MemcacheError, MemcacheUnknownError

PROP = "C13"
FUNCTIONS = ["pymemcache.client.hash:HashClient._get_client", "pymemcache.client.hash:HashClient._safely_run_func",
             "pymemcache.client.hash:HashClient._safely_run_set_many", "pymemcache.client.hash:HashClient._mark_failed_server",
             "pymemcache.client.hash:HashClient.remove_server", "pymemcache.client.hash:HashClient._retry_dead",
             "pymemcache.client.hash:HashClient._run_cmd", "pymemcache.client.hash:HashClient.set_many",
             "pymemcache.client.hash:HashClient.get_many", "pymemcache.client.hash:HashClient._set_many",
             "pymemcache.client.hash:HashClient.add_server"]
NS = SHARD.get("ns", 2)
RA = SHARD.get("ra", 1)
DEPTH = SHARD.get("depth", 4)
IGN = SHARD.get("ignore_exc", False)
KIND = SHARD.get("kind", "refused")
FIRST = SHARD.get("first")          # first event fixed by the shard (optional)
DTMAX = SHARD.get("dtmax", 3)
DTMIN = SHARD.get("dtmin", 2)
DMAX = SHARD.get("dmax", 2 * DTMAX + 1)
ALPHA = SHARD.get("alphabet")       # events allowed after the first one (None = all)
ALPHAS = SHARD.get("alphas")        # per-position alphabets (a scripted history with choices), None = not scripted
INIT_FAIL = SHARD.get("init_fail", [])   # servers that are already failing when the history starts
PROBE = SHARD.get("probe", True)    # read back what set_many wrote (the reads themselves clear failure records: off in
                                    # the shards that watch the bookkeeping across a recovery observed by set_many alone)
PAIR = SHARD.get("pair", False)     # gets use (server_key, key) pairs: routed by the server key, the inner key is another server's

SERVERS = [("10.0.0.%d" % (i + 1), 11211) for i in range(NS)]
NAMES = ["%s:%s" % s for s in SERVERS]


def _placement():
    """real rendezvous placement of a key corpus for every non-empty subset of the servers"""
    table = {}
    owned = {}
    cand = ["key%d" % i for i in range(200)]
    full = RendezvousHash(nodes=list(NAMES))
    for n in NAMES:
        owned[n] = [k for k in cand if full.get_node(k) == n][:1]
    keys = [owned[n][0] for n in NAMES]
    for r in range(1, NS + 1):
        for sub in itertools.combinations(NAMES, r):
            h = RendezvousHash(nodes=list(sub))
            for k in keys:
                table[(frozenset(sub), k)] = h.get_node(k)
    return keys, table


KEYS, TABLE = _placement()      # KEYS[i] is owned by server i when all servers are in rotation


def _inner():
    """for the pair (KEYS[e], inner): an inner key that placement would send elsewhere than the server key, also once the
    owner of the server key has left the rotation (where the rotation allows it)"""
    out = []
    for e in range(NS):
        rest = frozenset(NAMES) - {NAMES[e]}
        fb = TABLE[(rest, KEYS[e])] if rest else None
        cand = [j for j in range(NS) if j != e and TABLE[(rest, KEYS[j])] != fb] if rest else []
        out.append(cand[0] if cand else (e + 1) % NS)
    return out


INNER = _inner()


class TableHasher:
    def __init__(self):
        self.nodes = []

    def add_node(self, n):
        if n not in self.nodes:
            self.nodes.append(n)

    def remove_node(self, n):
        if n in self.nodes:
            self.nodes.remove(n)
        else:
            raise ValueError("No such node %s to remove" % n)

    def get_node(self, key):
        node = TABLE[(frozenset(self.nodes), key)] if self.nodes else None
        World.routes.append(("ask", key, node))
        return node


class World:
    failing = {}
    log = []
    inrot = []      # parallel to log: was the contacted server in rotation at that moment
    hasher = None
    routes = []     # ("ask", routing key, node chosen) for every placement query; ("contact", server) for every get
    clock = None
    where = {}


class Injected(MemcacheUnknownError):
    pass


def _raise():
    if KIND == "refused":
        raise ConnectionRefusedError(111, "injected: server down")
    if KIND == "timeout":
        raise _socket.timeout("injected: timed out")
    if KIND == "unreachable":
        raise OSError(113, "injected: no route to host")      # an OSError that is neither a ConnectionError nor a timeout
    raise Injected("injected: protocol error")


class Stub:
    def __init__(self, server, **kw):
        self.server = server
        self.name = "%s:%s" % server

    def _contact(self):
        bad = bool(World.failing.get(self.name))
        World.log.append((self.name, World.clock.now, bad))
        World.inrot.append(World.hasher is None or self.name in World.hasher.nodes)
        if bad:
            _raise()

    def get(self, key, default=None):
        World.routes.append(("contact", self.name, None))
        self._contact()
        return ("value-of", key, self.name)

    def set_many(self, values, *a, **k):
        self._contact()
        for key in values:
            World.where[key] = self.name
        return []

    def close(self):
        pass


class HC(HashClient):
    client_class = Stub


def _expected_exc(e):
    if isinstance(e, (ConnectionRefusedError, _socket.timeout, Injected)) or (type(e) is OSError and e.errno == 113):
        return True
    return type(e) is MemcacheError and "All servers" in str(e)


def h_failover(e1: int, e2: int, e3: int, e4: int, e5: int, e6: int,
               d1: int, d2: int, d3: int, d4: int, d5: int, d6: int, rt: int, dt: int, gap: int) -> int:
    """
    events: 0..NS-1 get on the key owned by server i; NS set_many over all keys; NS+1+2i server i starts failing;
            NS+2+2i server i stops failing.  d_j = clock advance before event j.
    pre: all([0 <= e and e <= 3 * NS for e in (e1, e2, e3, e4, e5, e6)[:DEPTH]])
    pre: all([0 <= d and d <= DMAX for d in (d1, d2, d3, d4, d5, d6)[:DEPTH]])
    pre: 1 <= rt and rt < dt and DTMIN <= dt and dt <= DTMAX
    pre: 1 <= gap and gap <= DTMAX
    post: _ != 0
    """
    clk = vclock.fresh(100)
    World.failing = {}
    World.log = []
    World.clock = clk
    World.where = {}
    World.routes = []
    World.inrot = []
    World.hasher = None
    c = HC(SERVERS, hasher=TableHasher, retry_attempts=RA, retry_timeout=rt, dead_timeout=dt, ignore_exc=IGN)
    World.hasher = c.hasher
    ever_failed = set()
    for i in INIT_FAIL:
        World.failing[NAMES[i]] = True
        ever_failed.add(NAMES[i])
    events = [e1, e2, e3, e4, e5, e6][:DEPTH]
    delays = [d1, d2, d3, d4, d5, d6][:DEPTH]
    for pos, (e, d) in enumerate(zip(events, delays)):
        e = concretize(e, 0, 3 * NS)
        if pos == 0 and FIRST is not None and e != FIRST:
            return skip("first-event-is-a-shard-parameter")
        if pos > 0 and ALPHA is not None and e not in ALPHA:
            return skip("event-outside-the-shard-alphabet")
        if ALPHAS is not None and e not in ALPHAS[pos]:
            return skip("event-outside-the-shard-script")
        clk.advance(d)
        if e > NS:
            i, stop = (e - NS - 1) // 2, (e - NS - 1) % 2 == 1
            was = bool(World.failing.get(NAMES[i]))
            if was != stop:
                return skip("pruned-history")     # start failing when failing / heal when healthy: no-op
            World.failing[NAMES[i]] = not stop
            if not stop:
                ever_failed.add(NAMES[i])
            continue
        n0 = len(World.log)
        r0 = len(World.routes)
        in_rotation = list(c.hasher.nodes)
        kin = KEYS[INNER[e]] if PAIR and e < NS else (KEYS[e] if e < NS else None)   # the key the server is asked for
        try:
            if e < NS:
                res = c.get((KEYS[e], kin) if PAIR else KEYS[e])
            else:
                res = c.set_many(dict((k, b"v") for k in KEYS))
            exc = None
        except Exception as ex:
            exc = ex
            res = None
        if exc is not None:
            if IGN:
                return viol("event", pos, e, "raised", type(exc).__name__, exc, "with ignore_exc=True")
            if not _expected_exc(exc):
                return viol("event", pos, e, "let an internal error escape:", type(exc).__name__, exc)
        contacted = [s for (s, _, _) in World.log[n0:]]
        if PROBE and e == NS and exc is None and res == [] and not any(bad for (_, _, bad) in World.log[n0:]) \
                and sorted(in_rotation) == sorted(c.hasher.nodes):
            # what set_many just wrote must be found by get on the same key: same instant, no failure, and the call itself
            # did not change the rotation (an eviction during the call legitimately strands what its last probe wrote)
            for key in KEYS:
                try:
                    r = c.get(key)
                except Exception as ex:
                    return viol("get right after a successful set_many raised", type(ex).__name__)
                if r is not None and r[2] != World.where.get(key):
                    return viol("set_many stored", key, "on", World.where.get(key), "but get looks for it on", r[2],
                                "events", events, "delays", delays)
        if e < NS:
            owner = NAMES[e]
            # placement is asked about the routing key (the server key of a pair) and about nothing else, and every contact
            # goes to the server it named last
            named = None
            for (what, a, b) in World.routes[r0:]:
                if what == "ask":
                    if a != KEYS[e]:
                        return viol("get routed by", KEYS[e], "(pair)" if PAIR else "", "asked placement about", a, "events",
                                    events, "delays", delays)
                    named = b
                elif a != named:
                    return viol("get routed by", KEYS[e], "(pair)" if PAIR else "", "contacted", a, "but placement named", named,
                                "events", events, "delays", delays)
            if owner not in ever_failed:
                # a server that never failed is never bypassed
                if contacted != [owner] or res != ("value-of", kin, owner):
                    return viol("server", owner, "never failed but get(", KEYS[e], ") contacted", contacted, "->", res)
            if owner not in in_rotation and owner not in c.hasher.nodes and in_rotation and exc is None and not IGN:
                # while a server is out (before and after this call) its key is answered by a remaining server
                if res is None or res[2] == owner or res[2] not in in_rotation:
                    return viol("server", owner, "is out of rotation but get(", KEYS[e], ") was answered by", res)
        # not taken out of rotation by a single failure when retries are configured
        if RA > 0 and KIND != "protocol":
            for name in NAMES:
                # failures since the server last answered: a successful contact ends the failing episode
                nfail = 0
                for (s, _, bad) in World.log:
                    if s == name:
                        nfail = nfail + 1 if bad else 0
                if nfail == 1 and name not in c.hasher.nodes:
                    return viol("server", name, "left the rotation after a single failure (retry_attempts=%d)" % RA,
                                "events", events, "delays", delays)
                # the same at the moment of each contact: the probe that follows the first failure of an episode still
                # finds the server in rotation (the call that evicts a server contacts it once more after removing it)
                nfail = 0
                for (s, _, bad), member in zip(World.log, World.inrot):
                    if s == name:
                        if nfail == 1 and not member:
                            return viol("server", name, "was taken out of rotation after a single failure of this episode "
                                        "(retry_attempts=%d)" % RA, "events", events, "delays", delays)
                        nfail = nfail + 1 if bad else 0
    # ---- window bounds over the contact log, per failing episode
    for name in NAMES:
        ep = []
        for (s, t, bad) in World.log:
            if s != name:
                continue
            if bad and KIND != "protocol":
                ep.append(t)
            else:
                ep = []
            if len(ep) >= 3 and ep[-1] - ep[-3] < rt:
                return viol("server", name, "contacted 3 times within retry_timeout", rt, ": times", ep[-3:], "events",
                            events, "delays", delays)
            if len(ep) >= RA + 3 and ep[-1] - ep[-(RA + 3)] < dt:
                return viol("server", name, "contacted", RA + 3, "times within dead_timeout", dt, ": times", ep[-(RA + 3):])
    # ---- recovery: everything healthy again; steady traffic every `gap`; placement must be back within two dead_timeout
    # periods of traffic.  Each period can overshoot by one traffic gap (the code compares with a strict >), and a server
    # whose retry budget was already used up is evicted by the first call after healing, so the bound is counted from the
    # last moment a server left the rotation.
    for name in NAMES:
        World.failing[name] = False
    since = clk.now
    steps = 0
    while clk.now - since <= 2 * dt + 2 * gap and steps < 6 * DTMAX + 6:
        clk.advance(gap)
        steps += 1
        before = len(c.hasher.nodes)
        for i in range(NS):
            try:
                c.get(KEYS[i])
            except Exception as ex:
                if IGN or not _expected_exc(ex):
                    return viol("recovery traffic raised", type(ex).__name__, ex)
        if len(c.hasher.nodes) < before:
            since = clk.now
    if sorted(c.hasher.nodes) != sorted(NAMES):
        return viol("after", clk.now - since, "time units (dead_timeout", dt, ") of healthy traffic every", gap,
                    "the rotation is still", c.hasher.nodes, "events", events, "delays", delays)
    n0 = len(World.log)
    for i in range(NS):
        try:
            r = c.get(KEYS[i])
        except Exception as ex:
            return viol("after recovery get raised", type(ex).__name__)
        if r != ("value-of", KEYS[i], NAMES[i]):
            return viol("after recovery key", KEYS[i], "is served by", r, "instead of its original owner", NAMES[i])
    return ok("history")


def shards(tier):
    out = []
    thorough = tier == "thorough"
    T = 900 if thorough else 500
    firsts2 = (0, 1, 2, 3, 5)      # "server stops failing" as first event is pruned anyway
    for ra in (0, 1, 2):
        for ign in (False, True):
            for kind in ("refused", "timeout", "protocol"):
                if not thorough and (kind == "timeout" and (ra != 2 or ign) or kind == "protocol" and (ra != 1 or ign)):
                    continue
                for first in firsts2:
                    deep = thorough and kind == "refused" and not ign
                    out.append(dict(fn="h_failover", timeout=T, shard=dict(ns=2, ra=ra, ignore_exc=ign, kind=kind,
                                                                           depth=4 if deep else 3, first=first, dtmax=3)))
    # deeper histories over a reduced alphabet: server 0 starts failing, then only traffic (get k0 / get k1 / set_many)
    for ra in ((0, 1, 2) if thorough else (1, 2)):     # retry_attempts=0 evicts at once: covered by the 3-event shards
        for ign in (False, True):
            out.append(dict(fn="h_failover", timeout=T, weight=3, shard=dict(ns=2, ra=ra, ignore_exc=ign, kind="refused",
                                                                             depth=5, first=3, dtmax=2, dmax=3,
                                                                             alphabet=[0, 2] if not thorough else [0, 1, 2])))
    # eviction, healing, then traffic: fail s1, get k1, heal s1, then {get k0, get k1, set_many}
    for ra in ((0, 1) if thorough else (1,)):
        out.append(dict(fn="h_failover", timeout=T, weight=3, shard=dict(ns=2, ra=ra, ignore_exc=False, kind="refused",
                                                                         depth=5, first=5, dtmax=2, dmax=3, alphabet=[1, 2, 6])))
    # a long dead_timeout against a short retry_timeout: the retry budget (retry_attempts+2 contacts per dead_timeout
    # window) only binds when dead_timeout spans several retries
    for ra in (1, 2):
        out.append(dict(fn="h_failover", timeout=T, weight=3, shard=dict(ns=2, ra=ra, ignore_exc=False, kind="refused",
                                                                         depth=6 if ra == 2 else 5, first=3, dtmin=8, dtmax=9,
                                                                         dmax=2, alphabet=[0])))
    # a plain OSError (EHOSTUNREACH): every OSError of the server counts as a failure of that server
    for first in firsts2:
        out.append(dict(fn="h_failover", timeout=T, shard=dict(ns=2, ra=1, ignore_exc=first == 3, kind="unreachable",
                                                               depth=4 if thorough else 3, first=first, dtmax=3)))
    for ign in (False, True):
        out.append(dict(fn="h_failover", timeout=T, weight=3, shard=dict(ns=2, ra=1, ignore_exc=ign, kind="unreachable", depth=5,
                                                                         first=3, dtmax=2, dmax=3, alphabet=[0, 2])))
    # socket.timeout (an OSError that is not a ConnectionError) with exceptions ignored
    for first in (3, 2):
        out.append(dict(fn="h_failover", timeout=T, shard=dict(ns=2, ra=1, ignore_exc=True, kind="timeout", depth=3,
                                                               first=first, dtmax=3)))
    out.append(dict(fn="h_failover", timeout=T, shard=dict(ns=2, ra=1, ignore_exc=True, kind="timeout", depth=4, first=3,
                                                           dtmax=3, dmax=3, alphabet=[0, 2])))
    # a failing episode that ends (observed by get or by set_many) and a second one later: fail s0, traffic, heal, traffic, fail
    for ra in (1, 2):
        out.append(dict(fn="h_failover", timeout=T, weight=3, shard=dict(ns=2, ra=ra, ignore_exc=False, kind="refused", depth=6,
                                                                         dtmax=2, dmax=2, probe=False,
                                                                         alphas=[[3], [0, 2], [4], [0, 2], [3], [0, 2]])))
        # the same starting with server 0 already failing, so that two calls follow the second failure
        out.append(dict(fn="h_failover", timeout=T, weight=3, shard=dict(ns=2, ra=ra, ignore_exc=False, kind="refused", depth=6,
                                                                         dtmax=2, dmax=2, init_fail=[0], probe=False,
                                                                         alphas=[[0, 2], [4], [0, 2], [3], [0, 2], [0, 2]])))
    # (server_key, key) pairs: routed by the server key, before, during and after the eviction of its server.  With three
    # servers the server key and the inner key fall back to different servers once the owner is out.
    for first in firsts2:
        out.append(dict(fn="h_failover", timeout=T, shard=dict(ns=2, ra=1, ignore_exc=False, kind="refused", pair=True,
                                                               depth=4 if thorough else 3, first=first, dtmax=3)))
    for ra, depth in ((1, 5), (2, 6)) if thorough else ((1, 4), (2, 5)):
        for ign in (False, True):
            out.append(dict(fn="h_failover", timeout=T, weight=2, shard=dict(ns=3, ra=ra, ignore_exc=ign, kind="refused", pair=True,
                                                                             depth=depth, first=4, dtmax=2, dmax=3, alphabet=[0, 1])))
    if thorough:
        for ra in (1, 2):
            for first in (0, 1, 2, 3, 4, 6, 8):
                out.append(dict(fn="h_failover", timeout=T, shard=dict(ns=3, ra=ra, ignore_exc=False, kind="refused", depth=3,
                                                                       first=first, dtmax=3)))
    return out


BOUNDS = {
    "quick": "2 servers; histories of 3 events (5 events over reduced alphabets: failure then traffic only; failure, "
             "eviction, healing then traffic; 6 events `fail s0, get|set_many, heal s0, get|set_many, fail s0, get|set_many`) over {get on the key of server i, set_many over all keys, server i starts/stops "
             "failing} (symbolic; first event = shard), clock advance 0..7 (0..3 in the 5-event shards) before each event (symbolic), 1 <= retry_timeout < "
             "dead_timeout <= 3 (symbolic), recovery traffic every 1..3 time units (symbolic); retry_attempts {0,1,2} x "
             "ignore_exc on/off with ConnectionRefusedError, plus socket.timeout, a plain OSError (EHOSTUNREACH) and a non-OSError memcached error; the same with "
             "(server_key, key) pairs on 2 servers, and on 3 servers for `server 0 fails, then gets routed by the keys of "
             "servers 0 and 1` (4-5 events); every get must query placement with its routing key only and contact the "
             "server placement named",
    "thorough": "all retry_attempts x ignore_exc x error kinds at 3 events, 4 events over the full alphabet for ConnectionRefusedError without ignore_exc, 5 over the reduced ones (with `get k1` added); 3 "
                "servers with 3 events over the full alphabet; pair histories one event longer (5 events over the full alphabet did not exhaust in "
                "2400 CPU-seconds per shard and was dropped)",
}
OUTSIDE = ("histories longer than 5 events; more than 3 servers; timeouts larger than 3 units (all comparisons in the code are "
           "linear in the clock, so larger values add no new orderings at this depth)")
ASSUMPTIONS = ["client_class is a scripted per-server stub; `time` in pymemcache.client.hash is a virtual integer clock",
               "the hasher is table-driven: for every subset of servers it returns what the real RendezvousHash returns "
               "(table computed at import from the real class)",
               "window bounds are asserted in the certain form: 3 contacts strictly inside retry_timeout / retry_attempts+3 "
               "strictly inside dead_timeout"]
RULE = ("one path = one (event sequence, ordering of clock advances against the timeouts) class; non-trivial when the whole "
        "history and the recovery phase ran and the contact log was checked against the window, bypass, rerouting and "
        "recovery rules")
