"""C16 - PooledClient, single-server HashClient and RetryingClient behave like Client.

Differential: the same call expression is evaluated on a plain Client and on each wrapper stack, each against its
own fresh memcached model in the same server state; the parsed command streams, the return value (value and type)
or the exception class, and the socket timeouts in force must be equal.  Operation, call shape, noreply, argument
values and server state are chosen by the solver (symbolic indices); the configuration is the shard.
"""
from harness.common import SHARD, concretize, load_known
from harness import ops
from vkit import clock as vclock
from vkit.net import NetSim, notrace
from vkit.stats import VIOL, SKIP, OK, ok, skip, viol
import pymemcache.client.base as B
from pymemcache.client.base import Client, PooledClient
from pymemcache.client.hash import HashClient
from pymemcache.client.retrying import RetryingClient
from pymemcache import serde as S

PROP = "C16"
FUNCTIONS = ["pymemcache.client.base:PooledClient.__init__", "pymemcache.client.base:PooledClient._create_client"] + [
    "pymemcache.client.base:PooledClient." + m for m in (
        "set", "set_many", "replace", "append", "prepend", "cas", "get", "gat", "gats", "get_many", "gets", "gets_many",
        "delete", "delete_many", "add", "incr", "decr", "touch")] + [
    "pymemcache.client.hash:HashClient.__init__", "pymemcache.client.hash:HashClient.add_server",
    "pymemcache.client.hash:HashClient._run_cmd", "pymemcache.client.hash:HashClient.get", "pymemcache.client.hash:HashClient.gat",
    "pymemcache.client.hash:HashClient.gats", "pymemcache.client.hash:HashClient.gets", "pymemcache.client.hash:HashClient.set_many",
    "pymemcache.client.hash:HashClient.get_many", "pymemcache.client.hash:HashClient.delete_many",
    "pymemcache.client.retrying:RetryingClient.__getattr__", "pymemcache.client.retrying:RetryingClient._retry"]
KNOWN = load_known(PROP)
STACK = SHARD.get("stack", "pooled")
CFG = SHARD.get("cfg", "default")

class RaisingSerde:
    """a caller-supplied serde that fails on marked values with exceptions that are neither OSError nor MemcacheError"""

    def serialize(self, key, value):
        if value == b"boom":
            raise ZeroDivisionError("serializer failed")
        return value, 0

    def deserialize(self, key, value, flags):
        if value == b"old":
            raise LookupError("deserializer failed")
        return value


CONFIGS = {
    "default": {},
    "prefix": {"key_prefix": b"pf:"},
    "strprefix": {"key_prefix": "sp:"},
    "dnr_false": {"default_noreply": False},
    "utf8": {"encoding": "utf8", "allow_unicode_keys": True},
    "pickle": {"serde": S.pickle_serde},
    "compressed": {"serde": S.CompressedSerde(min_compress_len=1)},
    "timeouts": {"connect_timeout": 3, "timeout": 7, "no_delay": True},
    "legacy": {"serializer": lambda k, v: (v, 9), "deserializer": lambda k, v, f: (v, f)},
    "raising": {"serde": RaisingSerde()},
}

# a first call that fails without any server or network fault, on the same object, before the compared call
FIRSTS = [
    lambda c: c.set(K, b"boom", noreply=False),       # serializer raises (config "raising"; plain store otherwise)
    lambda c: c.get(K),                               # deserializer raises on the stored b"old" (config "raising", state 0)
    lambda c: c.incr(K, 1, noreply=False),            # CLIENT_ERROR non-numeric (states 0 and 3)
    lambda c: c.get("bad key"),                       # illegal key
    lambda c: c.set("n", b"1", noreply=False),        # an ordinary successful call
]

K = "k1"
VAL = {"default": b"val", "utf8": "vàl", "pickle": {"a": [1, 2]}, "compressed": "text" * 3}

# (name, [call shapes]) ; A = dict(expire, flags, default, delta, nr)
def _kw(A):
    # noreply=None is either omitted or passed explicitly (cas/incr/decr treat an explicit None as "wait for the reply")
    if A["nr"] is None and not A["explicit"]:
        return {}
    return {"noreply": A["nr"]}


OPS = [
    ("set", [lambda c, A: c.set(K, A["val"], A["expire"], **_kw(A)),
             lambda c, A: c.set(K, A["val"], expire=A["expire"], flags=A["flags"], **_kw(A))]),
    ("add", [lambda c, A: c.add("new", A["val"], A["expire"], **_kw(A)),
             lambda c, A: c.add(K, A["val"], expire=A["expire"], flags=A["flags"], **_kw(A))]),
    ("replace", [lambda c, A: c.replace(K, A["val"], A["expire"], **_kw(A)),
                 lambda c, A: c.replace("nope", A["val"], flags=A["flags"], **_kw(A))]),
    ("append", [lambda c, A: c.append(K, b"+", A["expire"], **_kw(A)),
                lambda c, A: c.append(K, b"+", flags=A["flags"], **_kw(A))]),
    ("prepend", [lambda c, A: c.prepend(K, b"+", A["expire"], **_kw(A)),
                 lambda c, A: c.prepend(K, b"+", expire=A["expire"], flags=A["flags"], **_kw(A))]),
    ("cas", [lambda c, A: c.cas(K, A["val"], A["cas"], A["expire"], **_kw(A)),
             lambda c, A: c.cas(K, A["val"], cas=A["cas"], expire=A["expire"], flags=A["flags"], **_kw(A))]),
    ("get", [lambda c, A: c.get(K), lambda c, A: c.get("zz", A["default"]), lambda c, A: c.get("zz", default=A["default"])]),
    ("gets", [lambda c, A: c.gets(K), lambda c, A: c.gets("zz", A["default"], 5),
              lambda c, A: c.gets("zz", default=A["default"], cas_default=A["delta"])]),
    ("gat", [lambda c, A: c.gat(K, A["expire"]), lambda c, A: c.gat("zz", A["expire"], A["default"]),
             lambda c, A: c.gat(K, expire=A["expire"], default=A["default"]), lambda c, A: c.gat(K)]),
    ("gats", [lambda c, A: c.gats(K, A["expire"]), lambda c, A: c.gats("zz", A["expire"], A["default"], 6),
              lambda c, A: c.gats("zz", expire=A["expire"], default=A["default"], cas_default=A["delta"])]),
    ("delete", [lambda c, A: c.delete(K, **_kw(A)), lambda c, A: c.delete("zz", A["nr"])]),
    ("incr", [lambda c, A: c.incr("n", A["delta"], **_kw(A)), lambda c, A: c.incr(K, A["delta"], A["nr"] or False),
              lambda c, A: c.incr("zz", A["delta"])]),
    ("decr", [lambda c, A: c.decr("n", A["delta"], **_kw(A)), lambda c, A: c.decr("zz", value=A["delta"])]),
    ("touch", [lambda c, A: c.touch(K, A["expire"], **_kw(A)), lambda c, A: c.touch("zz", expire=A["expire"], **_kw(A))]),
    ("get_many", [lambda c, A: c.get_many([K, "zz", "n"]), lambda c, A: c.get_many([]), lambda c, A: c.get_multi(["n"])]),
    ("gets_many", [lambda c, A: c.gets_many([K, "n"])]),
    ("set_many", [lambda c, A: c.set_many({K: A["val"], "b": A["val"]}, A["expire"], **_kw(A)),
                  lambda c, A: c.set_many({K: A["val"]}, expire=A["expire"], flags=A["flags"], **_kw(A)),
                  lambda c, A: c.set_multi({"m": A["val"]})]),
    ("delete_many", [lambda c, A: c.delete_many([K, "zz"], **_kw(A)), lambda c, A: c.delete_multi(["n"])]),
    ("dict", [lambda c, A: c.__setitem__(K, A["val"]), lambda c, A: c.__getitem__(K), lambda c, A: c.__delitem__(K),
              lambda c, A: c.__getitem__("zz")]),
    ("badkey", [lambda c, A: c.get("bad key"), lambda c, A: c.set("x" * 251, A["val"]), lambda c, A: c.incr(K, "1")]),
]


def _build(stack, net, cfg):
    kw = dict(cfg)
    if stack == "client":
        return Client(ops.ADDR1, socket_module=net, **kw)
    if stack == "pooled":
        return PooledClient(ops.ADDR1, socket_module=net, max_pool_size=2, **kw)
    if stack == "hash":
        return HashClient([ops.ADDR1], socket_module=net, **kw)
    if stack == "hashp":
        return HashClient([ops.ADDR1], socket_module=net, use_pooling=True, max_pool_size=2, **kw)
    if stack == "retrying":
        return RetryingClient(Client(ops.ADDR1, socket_module=net, **kw), attempts=2)
    raise AssertionError(stack)


def _run_one(stack, op_i, shape_i, A, state, cfg, first=None, attempts=1):
    vclock.fresh()
    servers, _ = ops.fresh_servers(1)
    srv = servers[ops.ADDR1]
    pfx = cfg.get("key_prefix", b"")
    pfx = pfx.encode() if isinstance(pfx, str) else pfx
    srv.items.clear()
    # server state: 0 = K holds a plain value, 1 = K missing, 2 = K holds a number, 3 = K holds a value stored with flags
    if state == 0:
        srv.handle(b"set " + pfx + b"k1 0 0 3\r\nold\r\nset " + pfx + b"n 0 0 1\r\n5\r\n")
    elif state == 2:
        srv.handle(b"set " + pfx + b"k1 0 0 2\r\n41\r\nset " + pfx + b"n 0 0 2\r\n10\r\n")
    elif state == 3:
        c0 = _build("client", NetSim({ops.ADDR1: srv}, None), cfg)
        c0.set(K, A["val"], noreply=False)
        c0.set("n", A["val"], noreply=False)
        c0.close()
    srv.cmdlog.clear()
    net = NetSim(servers, None)
    net.expect_io_timeout = cfg.get("timeout", None)
    c = _build(stack, net, cfg)
    r0 = None
    if first is not None:
        net.begin_call(1)
        try:
            r0 = ("ret", FIRSTS[first](c))
        except Exception as e:
            r0 = ("raise", type(e).__name__)
    net.begin_call(2 if first is not None else 1)
    for attempt in range(attempts):      # attempts > 1: the reference for RetryingClient (repeat a call that raised, C17)
        try:
            r = ("ret", OPS[op_i][1][shape_i](c, A))
            break
        except Exception as e:
            r = ("raise", type(e).__name__)
            if OPS[op_i][0] == "dict" and type(e) is KeyError:
                break        # raised by __getitem__ itself for a miss, outside the retried inner get
    if first is not None:
        r = (r[0], (r0, r[1]))
    cmds = [repr(x) for x in srv.cmdlog]
    tmo = sorted(set((s.timeout_at_connect, s.timeout) for s in net.sockets if s.connected), key=repr)
    extra = list(net.violations) + [repr(e) for e in srv.protocol_errors]
    return r, cmds, tmo, extra


PRESETS = ((0, None, None, 1), (30, 77, "dflt", 2 ** 64 - 1), (-1, 0, 0, 0), (30, None, "dflt", 1))


def h_diff(op: int, shape: int, nr: int, state: int, preset: int, explicit: bool) -> int:
    """
    pre: 0 <= op < len(OPS)
    pre: 0 <= shape <= 3
    pre: 0 <= nr <= 2 and 0 <= state <= 3
    pre: 0 <= preset <= 3
    post: _ != 0
    """
    op = concretize(op, 0, len(OPS) - 1)
    shape = concretize(shape, 0, 3)
    if shape >= len(OPS[op][1]):
        return skip("no-such-shape")
    name = OPS[op][0]
    if name == "dict" and STACK in ("hash", "hashp"):
        return skip("HashClient-offers-no-dict-style-access")
    ex, fl, df, dl = PRESETS[concretize(preset, 0, 3)]
    A = {"nr": (None, True, False)[concretize(nr, 0, 2)], "expire": ex, "flags": fl, "default": df, "delta": dl,
         "cas": "1", "val": VAL.get(CFG, b"val"), "explicit": bool(explicit)}
    if explicit and A["nr"] is not None:
        return skip("explicit-only-matters-for-None")
    state = concretize(state, 0, 3)
    with notrace():
        B.RECV_SIZE = 4096
        cfg = CONFIGS[CFG]
        # RetryingClient(attempts=2) repeats a method call that raised (C17; in dict-style access the inner get/set/delete is what is retried): its reference
        # is the plain Client making the same call again after a failure
        ref = _run_one("client", op, shape, A, state, cfg, attempts=2 if STACK == "retrying" else 1)
        got = _run_one(STACK, op, shape, A, state, cfg)
        if ref[3] or got[3]:
            return viol(STACK, CFG, name, shape, "monitor:", (ref[3] + got[3])[0])
        want_cmds = ref[1]
        if want_cmds != got[1]:
            return viol(STACK, CFG, name, "shape", shape, "args", A, "state", state, ": Client sent", ref[1], "but", STACK, "sent", got[1])
        if ref[0][0] != got[0][0] or ref[0][1] != got[0][1] or type(ref[0][1]) is not type(got[0][1]):
            return viol(STACK, CFG, name, "shape", shape, "args", A, "state", state, ": Client ->", ref[0], "but", STACK, "->", got[0])
        if ref[2] != got[2]:
            return viol(STACK, CFG, name, ": socket timeouts (connect, I/O) differ: Client", ref[2], STACK, got[2])
        return ok(ref[0][0])


def h_after(first: int, op: int, nr: int, state: int) -> int:
    """
    the compared call comes second: a first call on the same object failed (or not) without any server fault
    pre: 0 <= first < len(FIRSTS)
    pre: 0 <= op < len(OPS)
    pre: 0 <= nr <= 2 and 0 <= state <= 2
    post: _ != 0
    """
    first = concretize(first, 0, len(FIRSTS) - 1)
    op = concretize(op, 0, len(OPS) - 1)
    name = OPS[op][0]
    if name == "dict" and STACK in ("hash", "hashp"):
        return skip("HashClient-offers-no-dict-style-access")
    ex, fl, df, dl = PRESETS[0]
    A = {"nr": (None, True, False)[concretize(nr, 0, 2)], "expire": ex, "flags": fl, "default": df, "delta": dl,
         "cas": "1", "val": VAL.get(CFG, b"val"), "explicit": False}
    state = concretize(state, 0, 2)
    with notrace():
        B.RECV_SIZE = 4096
        cfg = CONFIGS[CFG]
        ref = _run_one("client", op, 0, A, state, cfg, first)
        got = _run_one(STACK, op, 0, A, state, cfg, first)
        if ref[3] or got[3]:
            return viol(STACK, CFG, "first", first, name, "monitor:", (ref[3] + got[3])[0])
        if ref[1] != got[1]:
            return viol(STACK, CFG, "after first call", first, ref[0][1][0], ":", name, "state", state, ": Client sent", ref[1],
                        "but", STACK, "sent", got[1])
        if ref[0] != got[0]:
            return viol(STACK, CFG, "after first call", first, ":", name, "state", state, ": Client ->", ref[0], "but", STACK,
                        "->", got[0])
        return ok(ref[0][0])


def shards(tier):
    out = []
    thorough = tier == "thorough"
    stacks = ("pooled", "hash", "hashp", "retrying")
    cfgs = list(CONFIGS) if thorough else ["default", "prefix", "strprefix", "dnr_false", "utf8", "pickle", "timeouts"]
    for st in stacks:
        for cfg in cfgs:
            if not thorough and st in ("hashp", "retrying") and cfg not in ("default", "utf8", "timeouts"):
                continue
            out.append(dict(fn="h_diff", timeout=2400 if thorough else 600, shard=dict(stack=st, cfg=cfg)))
    for st in ("pooled", "hash", "hashp"):
        for cfg in ("raising", "default") + (("prefix", "pickle") if thorough else ()):
            out.append(dict(fn="h_after", timeout=600, shard=dict(stack=st, cfg=cfg)))
    return out


BOUNDS = {
    "quick": "20 operation groups (every key-addressed method, the *_multi aliases, dict-style access, illegal arguments) x up "
             "to 4 call shapes (positional / keyword) x noreply {default, True, False} x 4 server states (hit, miss, numeric, "
             "stored-through-the-stack) x 4 argument presets over expire {0,30,-1}, flags {None,0,77}, default "
             "{None,0,'dflt'}, delta {1,0,2^64-1}, all chosen by symbolic indices; configurations {default, key_prefix (bytes and str), default_noreply=False, "
             "utf8+unicode keys, pickle serde, timeouts+no_delay} on PooledClient and HashClient(1 server), a subset on "
             "pooled HashClient and RetryingClient(Client); two-call sequences: one of 5 first calls (serializer raising, "
             "deserializer raising, CLIENT_ERROR, illegal key, success) then any operation x noreply x 3 states on "
             "PooledClient / HashClient / pooled HashClient with a raising caller-supplied serde and the default one",
    "thorough": "all 10 configurations (adds compressed serde, legacy serializer functions, the raising serde for single calls) on all 4 stacks",
}
OUTSIDE = "multi-server HashClient (C12), failing servers (C13/C07), RetryingClient with failing calls (C17)"
ASSUMPTIONS = ["each stack runs against its own RefServer prepared in the same state; command streams are compared after "
               "parsing by the strict grammar", "all inputs are concrete once the solver has chosen the indices, so the "
               "comparison itself runs untraced"]
RULE = ("one path = one (operation, shape, noreply, state, argument tuple) combination enumerated by the solver; non-trivial "
        "when both stacks ran the call and command streams, results/exception classes and timeouts were compared")
