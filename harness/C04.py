"""C04 - what is stored is what is fetched: values and keys survive the round trip.

h_value : real store (set/add/replace/cas/set_many) then real fetch (get/gets/get_many/gets_many/gat/gats) of a value
          whose bytes are symbolic.  The server model runs untraced on a placeholder of the same length: the request is
          checked to be exactly <header><value>CRLF (symbolically) and the symbolic value is spliced back into the reply
          bytes, delivered with a symbolic cut and receive size 4 or 4096.
h_keys  : key remapping: concrete key corpus (str, bytes, unicode, boundary length), key collections passed as list,
          tuple, set, dict view, one-shot iterator; symbolic subset of present keys; result must map the caller's own key
          objects to their own values, prefix on the wire only.
h_serde : pickle (every protocol) / compressed / custom serdes and str/int values without a serde: solver-enumerated
          representatives (pickle and zlib are C code: values are realized before they are reached).
"""
from harness.common import SHARD, concretize, bit, load_known
from harness import ops
from vkit.net import NetSim, notrace
from vkit.stats import VIOL, SKIP, OK, ok, skip, viol
import pymemcache.client.base as B
from pymemcache.client.base import Client, PooledClient
from pymemcache.client.hash import HashClient
from pymemcache import serde as S

PROP = "C04"
FUNCTIONS = ["pymemcache.client.base:Client._store_cmd", "pymemcache.client.base:Client._fetch_cmd",
             "pymemcache.client.base:Client._extract_value", "pymemcache.client.base:_readvalue",
             "pymemcache.client.base:_readline", "pymemcache.client.base:Client.get_many",
             "pymemcache.client.base:Client.gets_many", "pymemcache.client.base:Client.set_many",
             "pymemcache.serde:PickleSerde.serialize", "pymemcache.serde:CompressedSerde.serialize",
             "pymemcache.serde:python_memcache_deserializer"]
KNOWN = load_known(PROP)

VL = SHARD.get("vl", 3)
STORE = SHARD.get("store", "set")
FETCH = SHARD.get("fetch", "get")
RECV = SHARD.get("recv", 4096)
PREFIX = SHARD.get("prefix", "").encode()
STACK = SHARD.get("stack", "client")
CMIN = SHARD.get("cmin", 0)
CMAX = SHARD.get("cmax", 40)
MARK = b"\x01"


SFLAG = SHARD.get("sflag", 5)


class FlagSerde:
    """custom serde: values travel unchanged with flag SFLAG (5; 0 and 65535 in further shards), and come back tagged with
    the flags the server returned"""

    def serialize(self, key, value):
        return value, SFLAG

    def deserialize(self, key, value, flags):
        return (value, flags)


def _scenario(c, value):
    """store then fetch; returns (store result, fetched value)"""
    key = "k1"
    if STORE == "set":
        r = c.set(key, value)
    elif STORE == "add":
        r = c.add(key, value)
    elif STORE == "replace":
        r = c.replace(key, value)
    elif STORE == "cas":
        r = c.cas(key, value, "2")
    else:
        r = c.set_many({"a": b"x", key: value, "b": b"y"}) == []
    if FETCH == "get":
        got = c.get(key)
    elif FETCH == "gets":
        got = c.gets(key)[0]
    elif FETCH == "get_many":
        got = c.get_many(["a", key, "zz"]).get(key)
    elif FETCH == "gets_many":
        got = c.gets_many([key, "b"])[key][0]
    elif FETCH == "gat":
        got = c.gat(key, expire=100)
    else:
        got = c.gats(key, expire=100)[0]
    return r, got


def _servers():
    servers, _ = ops.fresh_servers(2 if STACK == "hash2" else 1)
    with notrace():
        for srv in servers.values():
            srv.items.clear()
            srv.cas_counter = 0
            if STORE in ("replace", "cas"):
                srv.handle(b"set " + PREFIX + b"k1 0 0 1\r\nq\r\nset " + PREFIX + b"k1 0 0 1\r\nq\r\n")  # cas id 2
    return servers


class _Tagger:
    """wraps a client so that every public call gets its own call id for NetSim's ownership monitor"""

    def __init__(self, c, net):
        self._c, self._net, self._n = c, net, 0

    def __getattr__(self, name):
        f = getattr(self._c, name)

        def call(*a, **k):
            self._n += 1
            self._net.begin_call(self._n)
            return f(*a, **k)
        return call


def h_value(value: bytes, c1: int) -> int:
    """
    pre: len(value) == VL
    pre: CMIN <= c1 <= CMAX
    post: _ != 0
    """
    placeholder = MARK * VL
    serde = FlagSerde() if SHARD.get("serde") == "flag" else None
    # (1) placeholder run, fully concrete and untraced: learn the wire form of every request of the scenario
    with notrace():
        B.RECV_SIZE = 4096
        net0 = NetSim(_servers(), None)
        c0 = ops.make_client(STACK, net0, key_prefix=PREFIX, serde=serde, default_noreply=False)
        _scenario(_Tagger(c0, net0), placeholder)
        expected = [d for (_, _, d) in net0.sent]
    # (2) the real run with the symbolic value
    B.RECV_SIZE = RECV
    state = {"bad": None, "i": 0}
    net = NetSim(_servers(), None, cuts=(c1,) if c1 > 0 else (), concrete=True)

    def request_hook(data):
        i = state["i"]
        state["i"] = i + 1
        if i >= len(expected):
            state["bad"] = "more requests than in the placeholder run"
            return b"bogus\r\n"
        exp = expected[i]
        j = exp.find(placeholder) if VL > 0 else -1
        sym = exp if j < 0 else exp[:j] + value + exp[j + VL:]
        if data != sym:
            state["bad"] = "request %d is not the placeholder request with the value substituted" % i
        return exp

    def reply_hook(reply):
        j = reply.find(placeholder) if VL > 0 else -1
        if j < 0:
            return reply
        return reply[:j] + value + reply[j + VL:]

    net.request_hook = request_hook
    net.reply_hook = reply_hook
    c = ops.make_client(STACK, net, key_prefix=PREFIX, serde=serde, default_noreply=False)
    try:
        r, got = _scenario(_Tagger(c, net), value)
    except Exception as e:
        return viol(STORE, "/", FETCH, "raised", type(e).__name__, "for stored value", value, "cut", c1, "recv", RECV)
    if state["bad"]:
        return viol(STORE, state["bad"])
    if r is not True:
        return viol(STORE, "returned", r)
    if net.violations:
        return viol(net.violations[0])
    want = (value, SFLAG) if serde is not None else value
    if got != want:
        return viol(STORE, "then", FETCH, "returned", got, "for stored value", value, "cut", c1, "recv", RECV)
    return ok("roundtrip")


# ---------------------------------------------------------------------------------------------- keys

KEYS = ["plain", "p:plain", "kéy", "x" * 250, b"\x01\x7f\xff", "a", b"a"]   # "p:plain" starts with the key prefix b"p:"
KINDS = ("list", "tuple", "set", "dictview", "iterator", "generator")


def _coll(kind, keys):
    if kind == "list":
        return list(keys)
    if kind == "tuple":
        return tuple(keys)
    if kind == "set":
        return set(keys)
    if kind == "dictview":
        return dict((k, None) for k in keys).keys()
    if kind == "iterator":
        return iter(list(keys))
    return (k for k in keys)


KIND = SHARD.get("kind", "list")
CORE = 5   # the first CORE keys of KEYS take part in the symbolic subsets; the others are fixed extras


def h_keys(asked: int, pmode: int, pfx: bool, gets: bool) -> int:
    """
    asked: symbolic subset of the 5 core keys; present: one of {same, all, none, complement, alternating} of them.
    pre: 0 <= asked < 32
    pre: 0 <= pmode <= 4
    post: _ != 0
    """
    core = [0, 1, 2, 5, 6]          # "plain", b"bytes-key", "kéy", "a", b"a"
    ask = [KEYS[i] for n, i in enumerate(core) if bit(asked, n)]
    pmode = concretize(pmode, 0, 4)
    pres = []
    for n, i in enumerate(core):
        inask = bit(asked, n)
        keep = (inask, True, False, not inask, n % 2 == 0)[pmode]
        if keep:
            pres.append(KEYS[i])
    if SHARD.get("extras"):
        ask = ask + [KEYS[3], KEYS[4]]
        pres = pres + [KEYS[3], KEYS[4]]
    prefix = b"p:" if pfx else b""
    if "C04-iterator" in KNOWN and KIND in ("iterator", "generator"):
        return skip("known-finding-region")
    with notrace():
        return _keys_concrete(pres, ask, KIND, prefix, bool(gets))


def _keys_concrete(pres, ask, kind, prefix, gets):
    B.RECV_SIZE = 4096
    servers, _ = ops.fresh_servers(2 if STACK == "hash2" else 1)
    net = NetSim(servers, None)
    c = ops.make_client(STACK, net, key_prefix=prefix, allow_unicode_keys=True, default_noreply=False)
    if len(prefix) and any(len(k) == 250 for k in pres + ask):
        return skip("over-long-with-prefix")
    values = {}
    for i, k in enumerate(KEYS):
        if k in pres:
            values[id(k)] = ("val-%d" % i).encode()
    net.begin_call(1)
    try:
        failed = c.set_many(dict((k, values[id(k)]) for k in pres)) if pres else []
    except Exception as e:
        return viol("set_many raised", type(e).__name__, e, "keys", pres)
    if failed:
        return viol("set_many reported failed keys", failed)
    # "a" and b"a" are one wire key: the later store wins
    wire_val = {}
    for k in pres:
        wire_val[k.encode("utf8") if isinstance(k, str) else k] = values[id(k)]
    net.begin_call(2)
    try:
        res = (c.gets_many if gets else c.get_many)(_coll(kind, ask))
    except Exception as e:
        return viol("get_many(%s) raised" % kind, type(e).__name__, e, "asked", ask, "present", pres)
    if net.violations:
        return viol(net.violations[0])
    # prefix on the wire, never in the result
    for srv in servers.values():
        for cmd in srv.cmdlog:
            for wk in cmd.keys:
                if not wk.startswith(prefix):
                    return viol("key", wk, "sent without the prefix", prefix)
    seen = []
    for rk, rv in res.items():
        owner = None
        for k in ask:
            if rk is k:
                owner = k
        if owner is None:
            # a set/dict view of equal keys may hand back an equal object; it must at least be a requested key
            if not any(type(rk) is type(k) and rk == k for k in ask):
                return viol("result key", repr(rk), "is not one of the caller's keys", ask)
            owner = rk
        wk = owner.encode("utf8") if isinstance(owner, str) else owner
        if wk not in wire_val:
            return viol("result contains key", repr(rk), "which was never stored")
        val = rv[0] if gets else rv
        if val != wire_val[wk]:
            return viol("key", repr(rk), "came back with another key's value", val, "expected", wire_val[wk])
        seen.append(wk)
    for k in ask:
        wk = k.encode("utf8") if isinstance(k, str) else k
        if wk in wire_val and wk not in seen:
            return viol("present key", repr(k), "missing from the result", res, "collection", kind)
    return ok("keys")


# ---------------------------------------------------------------------------------------------- serdes

SAMPLES = [b"", b"bytes\r\nEND\r\n", "text", "téxt€", 0, 7, -12, 2 ** 70, True, None, 1.5, (1, "a", b"b"), {"k": [1, 2]},
           b"x" * 5000, "y" * 500, list(range(300))]


class TextSerde:
    def serialize(self, key, value):
        return ("i%d" % value if isinstance(value, int) else "s" + value).encode("utf8"), 0

    def deserialize(self, key, value, flags):
        text = value.decode("utf8")
        return int(text[1:]) if text[:1] == "i" else text[1:]


def h_serde(i: int, which: int, proto: int, thr: int) -> int:
    """
    pre: 0 <= i < len(SAMPLES)
    pre: 0 <= which <= 5
    pre: 0 <= proto <= 5
    pre: 0 <= thr <= 3
    post: _ != 0
    """
    i = concretize(i, 0, len(SAMPLES) - 1)
    which = concretize(which, 0, 5)
    proto = concretize(proto, 0, 5)
    thr = (0, 1, 10, 400)[concretize(thr, 0, 3)]
    if which >= 4 and (proto != 0 or thr != 0):
        return skip("custom-serdes-take-no-protocol-or-threshold")
    with notrace():
        return _serde_concrete(SAMPLES[i], which, proto, thr)


def _serde_concrete(v, which, proto, thr):
    B.RECV_SIZE = 64
    servers, _ = ops.fresh_servers(1)
    net = NetSim(servers, None)
    if which == 0:
        if not isinstance(v, (bytes, str, int)) or isinstance(v, bool):
            return skip("needs-a-serde")
        c = ops.make_client(STACK, net, default_noreply=False, encoding="utf8")
        want = v if isinstance(v, bytes) else str(v).encode("utf8")
    elif which == 1:
        c = ops.make_client(STACK, net, default_noreply=False, serde=S.PickleSerde(pickle_version=proto))
        want = v
    elif which == 2:
        c = ops.make_client(STACK, net, default_noreply=False,
                            serde=S.CompressedSerde(serde=S.PickleSerde(pickle_version=proto), min_compress_len=thr))
        want = v
    elif which == 3:
        import bz2
        c = ops.make_client(STACK, net, default_noreply=False,
                            serde=S.CompressedSerde(compress=bz2.compress, decompress=bz2.decompress, min_compress_len=thr))
        want = v
    elif which == 4:
        # a caller-supplied serde that stores text with flags 0 (as a JSON serde does): the deserializer must still run
        if not isinstance(v, (str, int)) or isinstance(v, bool):
            return skip("text-serde-takes-str-and-int")
        c = ops.make_client(STACK, net, default_noreply=False, serde=TextSerde())
        want = v
    else:
        # the legacy function pair: only a deserializer, flags 0 on the wire
        if not isinstance(v, bytes):
            return skip("bytes-only")
        c = ops.make_client(STACK, net, default_noreply=False, deserializer=lambda key, value, flags: (b"seen", value, flags))
        want = (b"seen", v, 0)
    if "C15-compressed-int" in load_known("C15") and which in (2, 3) and type(v) is int:
        return skip("known-finding-region(C15)")
    net.begin_call(1)
    try:
        c.set("k1", v)
        net.begin_call(2)
        got = c.get("k1")
        got2 = c.get_many(["k1"])["k1"]
    except Exception as e:
        return viol("serde", which, "protocol", proto, "threshold", thr, "value", repr(v)[:60], "raised", type(e).__name__, e)
    if got != want or type(got) is not type(want) or got2 != want:
        return viol("serde", which, "protocol", proto, "threshold", thr, "stored", repr(v)[:60], "fetched", repr(got)[:60])
    return ok("serde")


def shards(tier):
    out = []
    thorough = tier == "thorough"
    T = 1500 if thorough else 400
    stores = ("set", "add", "replace", "cas", "set_many")
    fetches = ("get", "gets", "get_many", "gets_many", "gat", "gats")
    if thorough:
        combos = [(s, f) for s in stores for f in fetches]
        vls = (0, 1, 3, 4, 6, 8)
    else:
        combos = [("set", "get"), ("set_many", "get_many"), ("cas", "gets"), ("add", "gat"), ("replace", "gets_many"),
                  ("set", "gats")]
        vls = (0, 2, 3, 5)
    for s, f in combos:
        for vl in vls:
            if not thorough and (s, f) != ("set", "get") and vl not in (2, 3):
                continue
            multi = f in ("get_many", "gets_many")
            if thorough and (s, f) not in (("set", "get"), ("set_many", "get_many"), ("cas", "gets")) and vl not in (3, 6):
                continue
            for recv in (4096, 4):
                if recv == 4 and not thorough and not ((s, f) == ("set", "get") or vl == 3):
                    continue
                rngs = ((0, 20), (21, 40)) if (multi or vl >= 5) else ((0, 40),)
                for lo, hi in rngs:
                    out.append(dict(fn="h_value", timeout=T, shard=dict(store=s, fetch=f, vl=vl, recv=recv, cmin=lo, cmax=hi)))
    out.append(dict(fn="h_value", timeout=T, shard=dict(store="set", fetch="get", vl=3, recv=4, prefix="pf:")))
    out.append(dict(fn="h_value", timeout=T, shard=dict(store="set", fetch="get", vl=3, recv=4096, serde="flag")))
    out.append(dict(fn="h_value", timeout=T, shard=dict(store="set", fetch="get", vl=2, recv=4096, serde="flag", sflag=0)))
    out.append(dict(fn="h_value", timeout=T, shard=dict(store="set_many", fetch="get_many", vl=2, recv=4096, serde="flag", sflag=65535,
                                                        cmin=0, cmax=20)))
    out.append(dict(fn="h_value", timeout=T, shard=dict(store="set_many", fetch="get", vl=2, recv=4096, stack="pooled1")))
    out.append(dict(fn="h_value", timeout=T, shard=dict(store="set", fetch="get", vl=2, recv=4096, stack="hash2")))
    for st in ("client", "pooled1", "hash2"):
        for kind in KINDS:
            if not thorough and st != "client" and kind not in ("list", "generator", "set"):
                continue
            out.append(dict(fn="h_keys", timeout=T, shard=dict(stack=st, kind=kind)))
        out.append(dict(fn="h_keys", timeout=T, shard=dict(stack=st, kind="list", extras=True)))
        out.append(dict(fn="h_serde", timeout=T, shard=dict(stack=st)))
    return out


BOUNDS = {
    "quick": "values of 0, 2, 3, 5 symbolic bytes (every content) stored by set/set_many/cas/add/replace and fetched by "
             "get/get_many/gets/gat/gets_many/gats (6 pairings), one symbolic cut in 0..40, receive size 4096 and 4 (so values "
             "straddle one and two receive sizes), with a key prefix, a flag-carrying custom serde (flags 5, 0, 65535), PooledClient and "
             "HashClient(2); key remapping: 7-key corpus (str, bytes, non-ASCII, 250 bytes, control bytes, 'a' and b'a'), "
             "symbolic asked subset of 5 of them x 5 present-set modes, 6 collection kinds, prefix on/off, get_many and "
             "gets_many, 3 stacks; "
             "serdes: 16 representative values x {no serde, pickle protocol 0..5, compressed(pickle), compressed(bz2), a custom text serde storing with flags 0, a legacy deserializer function; with "
             "thresholds 0/1/10/400}",
    "thorough": "all 30 store x fetch pairings, values 0..6 and 8 bytes, receive size 4 everywhere",
}
OUTSIDE = ("values beyond 8 symbolic bytes and up to the item limit; real 4096-byte pieces (receive size scaled to 4); "
           "arbitrary picklable objects (pickle/zlib/bz2 are C code: representatives only)")
ASSUMPTIONS = ["RefServer stands in for memcached; it runs untraced on a placeholder value, the symbolic value being checked "
               "in the request (<text><value><text>) and spliced into the reply where the placeholder appears",
               "pickle, zlib, bz2 reject symbolic proxies: serializer round trips use solver-enumerated representatives"]
RULE = ("one path = one (value content class, cut position) for the symbolic round trips, or one enumerated (subset, kind, "
        "prefix) / (value, serde, protocol, threshold) case; non-trivial when store and fetch both ran and the fetched value "
        "was compared with the stored one")
