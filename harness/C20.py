"""C20 - key validation accepts exactly the documented legal keys.

Code executed symbolically: pymemcache.client.base.check_key_helper, Client.check_key,
PooledClient.check_key, HashClient._get_client (real functions from /repo).
"""
from harness.common import SHARD, load_known, legal_wire_key, utf8_of, same_bytes
from vkit.stats import VIOL, SKIP, OK, ok, skip, viol

from pymemcache.client.base import check_key_helper, Client, PooledClient
from pymemcache.client.hash import HashClient
from pymemcache.exceptions import MemcacheIllegalInputError

from vkit import clock as _clock
_clock.install()  # HashClient.__init__ reads the clock; keep it deterministic

PROP = "C20"
FUNCTIONS = [
    "pymemcache.client.base:check_key_helper",
    "pymemcache.client.base:Client.check_key",
    "pymemcache.client.base:PooledClient.check_key",
    "pymemcache.client.hash:HashClient._get_client",
]
KNOWN = load_known(PROP)

KL = SHARD.get("kl", 1)
PL = SHARD.get("pl", 0)
WRAP = SHARD.get("wrap", "helper")
FILL_A = SHARD.get("fill_a", 0)
FILL_B = SHARD.get("fill_b", 0)
FILL_CP = SHARD.get("fill_cp", 0x61)
PREFIX_FILL = SHARD.get("prefix_fill", 0)


class _OneNodeHasher:
    def __init__(self):
        self.nodes = []

    def add_node(self, n):
        self.nodes.append(n)

    def remove_node(self, n):
        self.nodes.remove(n)

    def get_node(self, key):
        return self.nodes[0] if self.nodes else None


class _NoClient:
    def __init__(self, server, **kw):
        self.server = server


class _HC(HashClient):
    client_class = _NoClient


def _call(wrap, key, unicode_flag, prefix):
    """-> (accepted, out) through the selected wrapper; raises only unexpected exception kinds"""
    try:
        if wrap == "helper":
            out = check_key_helper(key, unicode_flag, prefix)
        elif wrap == "client":
            c = Client(("h", 1), allow_unicode_keys=unicode_flag, key_prefix=prefix)
            out = c.check_key(key, c.key_prefix)
        elif wrap == "pooled":
            c = PooledClient(("h", 1), allow_unicode_keys=unicode_flag, key_prefix=prefix)
            out = c.check_key(key)
        elif wrap == "hash":
            c = _HC([("h", 1)], hasher=_OneNodeHasher, allow_unicode_keys=unicode_flag, key_prefix=prefix)
            cl, k = c._get_client(key)
            out = None  # routing only validates; the chosen client re-validates and prefixes (C02)
        else:
            raise AssertionError(wrap)
    except MemcacheIllegalInputError:
        return False, None
    return True, out


def _known_region(full) -> bool:
    """regions excluded because they are listed as OPEN known findings (none after the fix commits)"""
    if "C20-ws-only" in KNOWN:
        allws = True
        for b in full:
            if not (b == 32 or (9 <= b and b <= 13)):
                allws = False
        if allws:
            return True
    return False


def _judge(wrap, accepted, out, full):
    if len(full) == 0:
        return skip("empty")  # the property speaks about non-empty prefixed forms only
    if _known_region(full):
        return skip("known-finding-region")
    legal = legal_wire_key(full)
    if accepted != legal:
        return viol("wrapper", wrap, "accepted", accepted, "but legal is", legal, "for prefixed key", bytes(full))
    if accepted and out is not None and not same_bytes(out, full):
        return viol("wrapper", wrap, "returned", out, "expected", bytes(full))
    return ok("accepted" if accepted else "rejected")


def h_bytes(key: bytes, prefix: bytes, unicode_flag: bool) -> int:
    """
    pre: len(key) == KL and len(prefix) == PL
    post: _ != 0
    """
    try:
        accepted, out = _call(WRAP, key, unicode_flag, prefix)
    except Exception as e:
        return viol("unexpected exception", type(e).__name__)
    return _judge(WRAP, accepted, out, prefix + key)


def h_boundary(s: bytes, unicode_flag: bool) -> int:
    """
    Long keys: concrete filler with three symbolic bytes (first, middle, last).
    pre: len(s) == 3
    post: _ != 0
    """
    key = s[0:1] + b"k" * FILL_A + s[1:2] + b"k" * FILL_B + s[2:3]
    prefix = b"p" * PREFIX_FILL
    try:
        accepted, out = _call(WRAP, key, unicode_flag, prefix)
    except Exception as e:
        return viol("unexpected exception", type(e).__name__)
    return _judge(WRAP, accepted, out, prefix + key)


def h_str(key: str, prefix: bytes, unicode_flag: bool) -> int:
    """
    str keys: every code point symbolic (no lone surrogates), unicode flag symbolic.
    pre: len(key) == KL and len(prefix) == PL
    post: _ != 0
    """
    cps = [ord(c) for c in key]
    for c in cps:
        if 0xD800 <= c and c <= 0xDFFF:
            return skip("surrogate")
    if PREFIX_FILL:
        # long concrete prefix: the total *byte* length straddles 250 depending on the UTF-8 width the
        # solver picks for each symbolic code point
        prefix = b"p" * PREFIX_FILL + prefix
    try:
        accepted, out = _call(WRAP, key, unicode_flag, prefix)
    except Exception as e:
        return viol("unexpected exception", type(e).__name__)
    ascii_only = True
    for c in cps:
        if c >= 128:
            ascii_only = False
    if not unicode_flag and not ascii_only:
        if accepted:
            return viol("non-ASCII str key accepted with unicode keys disabled")
        return ok("rejected_nonascii")
    full = list(prefix) + utf8_of(cps)  # list of byte values: bytes(<symbolic ints>) would realize them
    return _judge(WRAP, accepted, out, full)


_REPS = ("k", "\x7f", "\x80", "\xe9", "\u07ff", "\u0800", "\u20ac", "\uffff", "\U00010000", "\U0010ffff", "\t", " ")


def h_str_fill(i: int, unicode_flag: bool) -> int:
    """
    long str key = one code point followed by a concrete multi-byte filler: legality is decided by the
    encoded *byte* length.  A symbolic code point inside a 250-character string costs ~7 s per path
    (measured), so the leading code point is chosen by a symbolic index among width-class representatives:
    the solver enumerates the index, the rest of the path is concrete.
    pre: 0 <= i < 12
    post: _ != 0
    """
    a = _REPS[i]
    ca = ord(a)
    key = a + chr(FILL_CP) * FILL_A
    prefix = b"p" * PREFIX_FILL
    try:
        accepted, out = _call(WRAP, key, unicode_flag, prefix)
    except Exception as e:
        return viol("unexpected exception", type(e).__name__)
    if not unicode_flag and not (FILL_CP < 128 and ca < 128):
        if accepted:
            return viol("non-ASCII str key accepted with unicode keys disabled")
        return ok("rejected_nonascii")
    full = list(prefix) + utf8_of([ca]) + utf8_of([FILL_CP]) * FILL_A
    return _judge(WRAP, accepted, out, full)


# ---------------------------------------------------------------------------------------------- the rule has no memory

RKEYS = ["items", b"items", "slabs", "a b", "k" * 248, "k\n", ""]      # legal, legal only without prefix, illegal, empty
RPREFIX = [b"", b"ns:"]
RWARM = ("none", "stats", "get", "set", "delete", "get_many", "incr")
RFINAL = ("get", "set", "delete", "touch", "get_many", "gets", "incr")
NWARM = SHARD.get("nwarm", 1)


def _rdo(c, what, key):
    if what == "stats":
        return c.stats(key)
    if what == "get":
        return c.get(key)
    if what == "gets":
        return c.gets(key)
    if what == "set":
        return c.set(key, b"v", noreply=False)
    if what == "delete":
        return c.delete(key, noreply=False)
    if what == "touch":
        return c.touch(key, 5, noreply=False)
    if what == "incr":
        return c.incr(key, 1, noreply=False)
    if what == "get_many":
        return c.get_many([key])
    raise AssertionError(what)


def h_reuse(w1: int, k1: int, w2: int, k2: int, pf: int, fin: int, k3: int) -> int:
    """
    What a client transmits for a key is prefix + encoded key whatever the same client object processed before: two
    warm-up calls (stats with an argument, reads, writes; legal and illegal keys) and then one key command whose wire
    form is read off the reference server's parsed command log.
    pre: 0 <= w1 < len(RWARM) and 0 <= w2 < len(RWARM)
    pre: 0 <= k1 < len(RKEYS) and 0 <= k2 < len(RKEYS) and 0 <= k3 < len(RKEYS)
    pre: 0 <= pf < len(RPREFIX)
    pre: 0 <= fin < len(RFINAL)
    post: _ != 0
    """
    from harness.common import concretize
    from harness import ops
    from vkit.net import NetSim, notrace
    if NWARM < 2 and (w2 != 0 or k2 != 0):
        return skip("one-warm-up-call-in-this-shard")
    warm = [(RWARM[concretize(w1, 0, len(RWARM) - 1)], RKEYS[concretize(k1, 0, len(RKEYS) - 1)])]
    if NWARM >= 2:
        warm.append((RWARM[concretize(w2, 0, len(RWARM) - 1)], RKEYS[concretize(k2, 0, len(RKEYS) - 1)]))
    prefix = RPREFIX[concretize(pf, 0, len(RPREFIX) - 1)]
    final = RFINAL[concretize(fin, 0, len(RFINAL) - 1)]
    key = RKEYS[concretize(k3, 0, len(RKEYS) - 1)]
    with notrace():
        _clock.fresh()
        servers, _ = ops.fresh_servers(1)
        srv = servers[ops.ADDR1]
        net = NetSim(servers, None)
        c = ops.make_client({"client": "client", "pooled": "pooled1", "hash": "hash1"}[WRAP], net, key_prefix=prefix,
                            default_noreply=False)
        n = 0
        for what, k in warm:
            if what == "none" or (what == "stats" and WRAP == "hash"):
                continue
            n += 1
            net.begin_call(n)
            try:
                _rdo(c, what, k)
            except Exception:
                pass          # illegal keys, misses that raise: only the state they leave behind matters here
        srv.cmdlog.clear()
        net.begin_call(n + 1)
        full = prefix + (key if isinstance(key, bytes) else key.encode("ascii"))
        legal = legal_wire_key(full)
        try:
            _rdo(c, final, key)
            raised = None
        except MemcacheIllegalInputError:
            raised = "illegal"
        except Exception as e:
            raised = type(e).__name__
        if net.violations:
            return viol(WRAP, warm, "then", final, repr(key), ":", net.violations[0])
        sent = [k for cmd in srv.cmdlog for k in cmd.keys]
        if not legal:
            if raised != "illegal" or sent:
                return viol(WRAP, "prefix", prefix, "after", warm, ":", final, repr(key), "is illegal but", raised, "sent", sent)
            return ok("rejected")
        if raised == "illegal":
            return viol(WRAP, "prefix", prefix, "after", warm, ":", final, repr(key), "is legal but was rejected")
        if sent != [full]:
            return viol(WRAP, "prefix", prefix, "after", warm, ":", final, repr(key), "transmitted", sent, "expected", [full])
        return ok("transmitted")


def shards(tier):
    S = []
    thorough = tier == "thorough"
    maxk = 4 if thorough else 3
    for wrap in ("client", "pooled", "hash"):
        S.append(dict(fn="h_reuse", shard=dict(wrap=wrap, nwarm=1), timeout=400, weight=3))
        if thorough:
            S.append(dict(fn="h_reuse", shard=dict(wrap=wrap, nwarm=2), timeout=3000, weight=3))
    for kl in range(0, maxk + 1):
        for pl in range(0, 3):
            if kl + pl > (5 if thorough else 4) or kl + pl == 0:
                continue
            S.append(dict(fn="h_bytes", shard=dict(kl=kl, pl=pl, wrap="helper"),
                          timeout=900 if thorough else 240))
    for wrap in ("client", "pooled", "hash"):
        for kl, pl in ((1, 0), (2, 0), (1, 1), (2, 1)) + (((3, 0), (3, 1)) if thorough else ()):
            S.append(dict(fn="h_bytes", shard=dict(kl=kl, pl=pl, wrap=wrap), timeout=600 if thorough else 240))
    # boundary lengths: total = prefix_fill + 3 + fill_a + fill_b
    for total in (248, 249, 250, 251, 252):
        for pf in (0, 1, 125) + ((247,) if thorough else ()):
            rest = total - pf - 3
            fa = rest // 2
            fb = rest - fa
            for wrap in (("helper", "client", "pooled", "hash") if thorough else ("helper",)):
                S.append(dict(fn="h_boundary", shard=dict(fill_a=fa, fill_b=fb, prefix_fill=pf, wrap=wrap),
                              timeout=300))
    for kl in (1, 2) + ((3,) if thorough else ()):
        for pl in (0, 1):
            for wrap in ("helper", "client", "pooled", "hash") if (thorough or kl == 1) else ("helper",):
                S.append(dict(fn="h_str", shard=dict(kl=kl, pl=pl, wrap=wrap), timeout=900 if thorough else 240))
    # str keys whose encoded length decides legality: long concrete prefix + 1..2 symbolic code points
    for kl, pfs in ((1, (246, 247, 248, 249, 250)), (2, (242, 244, 246, 247, 248, 249))):
        for pf in pfs:
            if kl == 2 and not thorough:
                continue
            S.append(dict(fn="h_str", shard=dict(kl=kl, pl=0, prefix_fill=pf, wrap="helper"),
                          timeout=1500 if thorough else 300))
    # long str keys with a multi-byte filler: (filler code point, count) -> filler bytes 246..250
    fills = [(0x20AC, 82), (0x20AC, 83), (0xE9, 123), (0xE9, 124), (0xE9, 125), (0x61, 248), (0x61, 249), (0x61, 250)]
    for cp, n in fills:
        for pf in (0, 1):
            for wrap in ("helper", "client", "pooled", "hash") if thorough else ("helper",):
                S.append(dict(fn="h_str_fill", shard=dict(fill_cp=cp, fill_a=n, prefix_fill=pf, wrap=wrap), timeout=120))
    return S


BOUNDS = {
    "quick": "bytes keys: every key of length 0..3 x every prefix of length 0..2 (|key|+|prefix|<=4), all 256 values per "
             "byte symbolic, allow_unicode_keys symbolic, via check_key_helper; lengths (1..2)x(0..1) via Client/Pooled/"
             "Hash wrappers; total length 248..252 (prefix 0/1/125) with 3 symbolic bytes at first/middle/last position; "
             "str keys of 1..2 symbolic code points (whole Unicode range minus surrogates); long str keys = 1 code point chosen by a symbolic "
             "index among 12 width-class representatives + 1-/2-/3-byte filler code points with 246..251 filler bytes; "
             "str keys of 1 symbolic code point behind a 246..250-byte concrete prefix; no memory: 1 warm-up call (2 in the thorough tier) "
             "(7 kinds incl. stats with an argument x 7 keys, symbolic indices) then one of 7 key commands on one of 7 keys "
             "with prefix {none, 'ns:'} through Client / PooledClient / HashClient over the reference server: wire key == "
             "prefix + key, illegal keys rejected with nothing sent",
    "thorough": "as quick with key length up to 4 (|key|+|prefix|<=5), wrappers up to length 3, boundary through all four "
                "wrappers and prefix 247, str keys of 3 code points, "
                "2 symbolic code points behind a 242..249-byte concrete prefix",
}
OUTSIDE = ("keys with more than 4 fully symbolic bytes / 3 symbolic code points; long keys other than the "
           "filler+3-symbolic-bytes construction; prefixes longer than 2 symbolic bytes; lone surrogates")
ASSUMPTIONS = [
    "CrossHair models of bytes/str/int and the four plug-in models in vkit/ch_models.py (differentially tested at setup)",
    "HashClient is constructed with a one-node stub hasher and a stub client_class: only _get_client's validation is exercised",
    "the empty prefixed key is outside the property as stated and is skipped",
]
RULE = ("one CrossHair path = one combination of branch outcomes in check_key_helper and in the independent "
        "byte-value predicate; every value of every symbolic byte/code point consistent with the path is covered by "
        "the solver; a path is non-trivial when the prefixed key is non-empty and the accept/reject oracle was evaluated")
