"""C14 - murmur3_32 equals the reference MurmurHash3_x86_32 (Engine B, see vkit/bvsym.py).

The function object pymemcache.client.murmur3.murmur3_32 is executed natively on proxies: every character
is an object whose ord() is a symbolic byte, the seed a symbolic 32-bit value; the result is a lazy term over
unbounded non-negative integers.  Query per length n:   low32(result) != MurmurHash3_x86_32(bytes, seed).
unsat => equal for every content and every seed of that length; sat => (bytes, seed), replayed concretely.
"""
import json
import os
import subprocess
import sys
import time

from harness.common import SHARD
from vkit.stats import VIOL, SKIP, OK, ok, skip, viol

PROP = "C14"
ENGINE = "Engine B: real murmur3_32 run on lazy unbounded-int proxies, lowered on demand to z3 bit-vectors (QF_BV)"
FUNCTIONS = ["pymemcache.client.murmur3:murmur3_32"]
KL = SHARD.get("kl", 1)
SEED_CONST = SHARD.get("seed_const")
CLS = SHARD.get("cls", "any")

MASK = 0xFFFFFFFF


def ref_py(bs, seed):
    """MurmurHash3_x86_32 over a list of byte values, written with explicit 32-bit wrap-around"""
    def rotl(x, r):
        return ((x << r) | (x >> (32 - r))) & MASK
    h = seed & MASK
    n = len(bs)
    nb = n // 4
    for i in range(nb):
        k = bs[4 * i] | (bs[4 * i + 1] << 8) | (bs[4 * i + 2] << 16) | (bs[4 * i + 3] << 24)
        k = (k * 0xCC9E2D51) & MASK
        k = rotl(k, 15)
        k = (k * 0x1B873593) & MASK
        h ^= k
        h = rotl(h, 13)
        h = (h * 5 + 0xE6546B64) & MASK
    t = bs[4 * nb:]
    k = 0
    if len(t) >= 3:
        k ^= t[2] << 16
    if len(t) >= 2:
        k ^= t[1] << 8
    if len(t) >= 1:
        k ^= t[0]
        k = (k * 0xCC9E2D51) & MASK
        k = rotl(k, 15)
        k = (k * 0x1B873593) & MASK
        h ^= k
    h ^= n
    h ^= h >> 16
    h = (h * 0x85EBCA6B) & MASK
    h ^= h >> 13
    h = (h * 0xC2B2AE35) & MASK
    h ^= h >> 16
    return h


def ref_bv(bs, seed, n):
    """the same reference written directly over z3 32-bit vectors"""
    import z3
    M = lambda v: z3.BitVecVal(v, 32)
    rotl = lambda x, r: z3.RotateLeft(x, r)
    z = lambda b: z3.ZeroExt(24, b)
    h = seed
    nb = n // 4
    for b in range(nb):
        k = z(bs[4 * b]) | (z(bs[4 * b + 1]) << 8) | (z(bs[4 * b + 2]) << 16) | (z(bs[4 * b + 3]) << 24)
        k = k * M(0xCC9E2D51)
        k = rotl(k, 15)
        k = k * M(0x1B873593)
        h = h ^ k
        h = rotl(h, 13)
        h = h * M(5) + M(0xE6546B64)
    t = bs[4 * nb:]
    k = M(0)
    if len(t) >= 3:
        k = k ^ (z(t[2]) << 16)
    if len(t) >= 2:
        k = k ^ (z(t[1]) << 8)
    if len(t) >= 1:
        k = k ^ z(t[0])
        k = k * M(0xCC9E2D51)
        k = rotl(k, 15)
        k = k * M(0x1B873593)
        h = h ^ k
    h = h ^ M(n)
    h = h ^ z3.LShR(h, 16)
    h = h * M(0x85EBCA6B)
    h = h ^ z3.LShR(h, 13)
    h = h * M(0xC2B2AE35)
    h = h ^ z3.LShR(h, 16)
    return h


VECTORS = [("", 0, 0), ("", 1, 0x514E28B7), ("", 0xFFFFFFFF, 0x81F16F39), ("hello", 0, 0x248BFA47),
           ("hello, world", 0, 0x149BBB7F), ("The quick brown fox jumps over the lazy dog", 0x9747B28C, 0x2FA826CD),
           ("aaaa", 0x9747B28C, 0x5A97808A), ("abc", 0, 0xB3DD93FA), ("test", 0, 0xBA6BD213),
           ("test", 0x9747B28C, 0x704B81DC), ("Hello, world!", 0, 0xC0363E43), ("Hello, world!", 0x9747B28C, 0x24884CBA),
           ("aaa", 0x9747B28C, 0x283E0130), ("aa", 0x9747B28C, 0x5D211726), ("a", 0x9747B28C, 0x7FA09EA6),
           ("abcd", 0x9747B28C, 0xF0478627), ("abc", 0x9747B28C, 0xC84A62DD)]


def selftest():
    for s, seed, want in VECTORS:
        assert ref_py([ord(c) for c in s], seed) == want, (s, seed)
    return "%d published vectors ok" % len(VECTORS)


# ---------------------------------------------------------------- concrete replay / CrossHair fallback

def replay_case(cps: list, seed: int) -> int:
    # (no PEP316 contract here on purpose: CrossHair short-circuits calls to contracted functions)
    from pymemcache.client.murmur3 import murmur3_32
    data = "".join(chr(c) for c in cps)
    try:
        got = murmur3_32(data, seed)
        got2 = murmur3_32(data, seed)
    except Exception as e:
        return viol("murmur3_32 raised", type(e).__name__, e, "for", cps, seed)
    if not isinstance(got, int) or isinstance(got, bool) or not (0 <= got <= MASK):
        return viol("result is not a 32-bit unsigned int:", got, "for", cps, seed)
    if got != got2:
        return viol("not deterministic")
    if all(c < 256 for c in cps) and 0 <= seed <= MASK:
        want = ref_py(list(cps), seed)
        if got != want:
            return viol("murmur3_32(%r, %#x) = %#x, MurmurHash3_x86_32 = %#x" % (data, seed, got, want))
    return ok("match")


def h_fallback(data: str, seed: int) -> int:
    """
    Bug-hunting fallback (CrossHair) used only when the code cannot be executed on Engine B's proxies.
    pre: len(data) == KL
    pre: 0 <= seed < 4294967296
    post: _ != 0
    """
    cps = [ord(c) for c in data]
    for c in cps:
        if c >= 256:
            return skip("wide")
    # input-space partition (shard parameter): strings whose first / every byte has the high bit set
    if CLS == "high0" and not (KL >= 1 and cps[0] >= 128):
        return skip("class")
    if CLS == "allhigh":
        for c in cps:
            if c < 128:
                return skip("class")
    if SEED_CONST is not None:
        seed = SEED_CONST
    return replay_case(cps, seed)


# ---------------------------------------------------------------- engine B job

class Ch:
    """a character whose ord() is a symbolic value"""
    __slots__ = ("n",)

    def __init__(self, n):
        self.n = n


class SymStr(list):
    """the string argument: a sequence of Ch; anything beyond len/index/iteration is outside the model"""

    def __getitem__(self, i):
        r = list.__getitem__(self, i)
        return SymStr(r) if isinstance(i, slice) else r

    def encode(self, *a, **k):
        from vkit.bvsym import Unsupported
        raise Unsupported("str.encode on the symbolic string")


def _external(smt2, binary, timeout):
    try:
        p = subprocess.run([binary, "-in", "-smt2", "-T:%d" % timeout] if "z3" in binary else
                           [binary, "--lang=smt2", "--tlimit=%d" % (timeout * 1000)],
                           input=smt2 + "\n(check-sat)\n", capture_output=True, text=True, timeout=timeout + 30)
    except Exception as e:
        return "error:%s" % type(e).__name__
    out = p.stdout.strip()
    if "(error" in out or "(error" in p.stderr:
        return "error"
    for tok in ("unsat", "sat", "unknown", "timeout"):
        if out.startswith(tok) or ("\n" + tok) in out:
            return tok
    return "error:" + out[:60]


def engine_b(job):
    import z3
    from vkit import bvsym
    import pymemcache.client.murmur3 as M
    M.ord = lambda c: c.n  # `ord` resolved in the murmur3 module's namespace, checking process only
    fn = M.murmur3_32
    res = {"status": "confirmed", "message": "", "paths": 0, "counts": {}, "queries": []}
    t0 = time.process_time()
    width = int(job.get("width", 8))
    timeout_ms = int(job.get("timeout", 60) * 1000)
    win = job.get("window")            # long strings: concrete pattern, only the last `win` bytes symbolic, concrete seed
    for n in job["lengths"]:
        if win:
            bs = [z3.BitVecVal((i * 37 + 11) & 0xFF, 8) for i in range(n - win)] + \
                 [z3.BitVec("b%d" % i, 8) for i in range(n - win, n)]
            seed = z3.BitVecVal(job.get("seed_const", 0), 32)
        else:
            bs = [z3.BitVec("b%d" % i, width) for i in range(n)]
            seed = z3.BitVec("seed", 32)
        q0 = time.time()
        try:
            def node(b):
                return bvsym.N.lift(b.as_long()) if z3.is_bv_value(b) else bvsym.N("var", (b, width), width)
            out = fn(SymStr(Ch(node(b)) for b in bs),
                     bvsym.N.lift(seed.as_long()) if z3.is_bv_value(seed) else bvsym.N("var", (seed, 32), 32))
            if not isinstance(out, bvsym.N):
                out = bvsym.N.lift(out)
            hi = out.hi
            if width == 8:
                claim = out.low(max(hi, 32)) != z3.ZeroExt(max(hi, 32) - 32, ref_bv(bs, seed, n))
            else:
                # wide code points: the only claim is a 32-bit unsigned result (static width bound)
                claim = z3.BoolVal(hi > 32)
        except bvsym.Unsupported as e:
            res.update(status="unsupported", message="length %d: %s" % (n, e))
            break
        except Exception as e:
            res.update(status="unsupported", message="length %d: %s: %s" % (n, type(e).__name__, e))
            break
        if width == 8:
            # vacuity guard (reachability twin): the encoding must be able to tell values apart
            tw = z3.SolverFor("QF_BV")
            tw.set("timeout", timeout_ms)
            tw.add(out.low(32) != ref_bv(bs, seed, n) + 1)
            if str(tw.check()) != "sat":
                res.update(status="error", message="vacuity twin not satisfiable at length %d" % n)
                break
        s = z3.SolverFor("QF_BV")
        s.set("timeout", timeout_ms)
        s.add(claim)
        r = str(s.check())
        q = {"n": n, "width": width, "hi": hi, "z3": r, "s": round(time.time() - q0, 2)}
        res["paths"] += 1
        if r == "unsat" and job.get("cross"):
            smt2 = s.to_smt2().replace("(check-sat)", "")
            for name, binary in (("z3-4.8.12", "/usr/bin/z3"),):
                if os.path.exists(binary):
                    q[name] = _external(smt2, binary, int(job.get("timeout", 60)))
                    if q[name] != "unsat":
                        res.update(status="unknown", message="solver disagreement/inconclusive at length %d: %s" % (n, q))
        res["queries"].append(q)
        if r == "sat":
            m = s.model()
            cps = [b.as_long() if z3.is_bv_value(b) else m.eval(b, model_completion=True).as_long() for b in bs]
            sd = m.eval(seed, model_completion=True).as_long() if not z3.is_bv_value(seed) else seed.as_long()
            res.update(status="refuted",
                       message="murmur3_32 differs from MurmurHash3_x86_32 for code points %r seed %#x" % (cps, sd),
                       replay={"module": "harness.C14", "fn": "replay_case", "shard": {}, "args": [cps, sd]})
            break
        if r != "unsat":
            res.update(status="unknown", message="z3 answered %s at length %d" % (r, n))
            break
        res["counts"]["OK"] = res["counts"].get("OK", 0) + 1
    res["cpu_s"] = round(time.process_time() - t0, 2)
    return res


def fallback(job, why):
    """CrossHair bug-hunting over short strings and boundary seeds"""
    here = os.path.dirname(os.path.dirname(os.path.abspath(__file__)))
    best = None
    if 0 not in job["lengths"] or job.get("width", 8) != 8:
        return {"status": "error", "message": "code cannot be executed on Engine B proxies (%s); CrossHair fallback "
                "runs in the shard containing length 0" % why, "paths": 0, "counts": {}}
    combos = [(kl, cls, sc) for kl in (1, 2, 4, 5, 8) for cls in ("any", "high0", "allhigh")
              for sc in (None, 0xFFFFFFFF, 0x80000000)]
    for kl, cls, sc in combos:
        if True:
            j = {"module": "harness.C14", "fn": "h_fallback", "shard": {"kl": kl, "seed_const": sc, "cls": cls}, "timeout": 6}
            p = subprocess.run([sys.executable, "-m", "vkit.chworker", json.dumps(j)], capture_output=True, text=True,
                               cwd=here, timeout=120)
            for line in p.stdout.splitlines():
                if line.startswith("RESULT "):
                    r = json.loads(line[7:])
                    if r["status"] == "refuted":
                        r["message"] = r["message"]
                        r["note"] = "found by the CrossHair fallback because Engine B could not execute the code: " + why
                        return r
                    best = r
    return {"status": "error", "message": "code cannot be executed on Engine B proxies (%s) and the CrossHair "
            "fallback found no counterexample within its budget: inconclusive" % why, "paths": 0, "counts": {}}


def long_guard(job):
    from pymemcache.client.murmur3 import murmur3_32
    res = {"status": "confirmed", "message": "", "paths": 0, "counts": {"guard_samples": 0}, "queries": []}
    for n in job["lengths"]:
        cps = [(i * 37 + n) & 0xFF for i in range(n)]
        data = "".join(chr(c) for c in cps)
        for seed in (0, 1, 0x80000000, 0xFFFFFFFF):
            try:
                got = murmur3_32(data, seed)
            except Exception as e:
                got = "%s: %s" % (type(e).__name__, e)
            if got != ref_py(cps, seed):
                res.update(status="refuted", message="length %d seed %#x: murmur3_32 -> %r, reference %#x" % (n, seed, got, ref_py(cps, seed)),
                           replay={"module": "harness.C14", "fn": "replay_case", "shard": {}, "args": [cps, seed]})
                return res
            res["counts"]["guard_samples"] += 1
    res["queries"].append({"concrete_samples": res["counts"]["guard_samples"], "note": "guard outside the claim; not solver-decided"})
    return res


def main():
    job = json.loads(sys.argv[1])
    os.environ.pop("VERIF_UNDER_CROSSHAIR", None)
    r = long_guard(job) if job.get("guard") else engine_b(job)
    if r["status"] == "unsupported":
        r2 = fallback(job, r["message"])
        r2.setdefault("queries", r.get("queries", []))
        r = r2
    r.setdefault("module", "harness.C14")
    r.setdefault("fn", "engine_b")
    r.setdefault("shard", {"lengths": job["lengths"], "width": job.get("width", 8)})
    r.setdefault("twin", False)
    print("RESULT " + json.dumps(r), flush=True)


def shards(tier):
    S = []
    groups = [list(range(i, min(i + 7, 49))) for i in range(0, 49, 7)]
    for g in groups:
        S.append(dict(runner="harness.C14", fn="engine_b", lengths=g, timeout=120, no_twin=True,
                      cross=(tier == "thorough"), shard={"lengths": g}))
    # any code point up to 0x10FFFF still yields a 32-bit unsigned value (static width bound, lengths 0..12)
    S.append(dict(runner="harness.C14", fn="engine_b", lengths=list(range(0, 13)), width=21, timeout=60, no_twin=True,
                  shard={"lengths": "0..12", "width": 21}))
    # outside the solver-decided bound: one concrete differential sample per length 49..1100 and boundary seed (a guard
    # against length-dependent control-flow slips such as a truncated block count; NOT part of the all-inputs claim)
    S.append(dict(runner="harness.C14", fn="long_guard", lengths=list(range(49, 1101)), timeout=120, no_twin=True, guard=True,
                  shard={"lengths": "49..1100", "kind": "concrete differential guard"}))
    return S


BOUNDS = {
    "quick": "every string of each length 0..48 (every tail length, 0..12 blocks), all 256 values per byte and all 2^32 seeds "
             "symbolic: one QF_BV query per length; code points up to 21 bits: static 32-bit width bound, lengths 0..12. Outside the claim, as a "
             "guard only: one concrete differential sample per length 49..1100 x 4 boundary seeds",
    "thorough": "as quick, and every unsat answer re-checked with the independent z3 4.8.12 binary on the SMT-LIB2 dump",
}
OUTSIDE = ("strings longer than 48 code points (z3 returns unknown at 56, also for a symbolic window after a concrete prefix): "
           "beyond 48 nothing is claimed, the concrete guard only hunts for length-dependent slips; seeds outside [0, 2^32)")
ASSUMPTIONS = [
    "`ord` is rebound in the murmur3 module namespace inside the checking process so that characters are symbolic bytes",
    "control flow of murmur3_32 depends on the length only (a shard parameter); a data-dependent branch raises Unsupported "
    "and the run is reported inconclusive (after a CrossHair bug-hunting fallback)",
    "lowering identities of vkit/bvsym.py (proved at small widths and differential-tested at setup)",
    "the reference is MurmurHash3_x86_32 written over 32-bit vectors, validated against published vectors",
]
TRUSTED = ["z3 5.1.0 (and z3 4.8.12 in thorough)", "vkit/bvsym.py lowering identities", "harness/C14.py ref_bv / ref_py"]
RULE = ("one query per (length, width): all contents and seeds of that length are covered by the solver; a query is "
        "non-trivial when the real function ran to completion on the proxies and z3 returned unsat for "
        "result != reference")


if __name__ == "__main__":
    main()
