"""C01 - a call only ever consumes the server's reply to its own request.

Real code: Client/PooledClient/HashClient public methods -> _store_cmd/_misc_cmd/_fetch_cmd/_extract_value/
_readline/_readvalue/_recv, ObjectPool.get_and_release.  Environment: NetSim + RefServer (every reply byte is
tagged with the id of the call that caused it).
"""
from harness.common import SHARD, concretize
from harness import ops
from vkit.net import FaultPlan
from vkit.stats import VIOL, SKIP, OK, ok, skip, viol

PROP = "C01"
FUNCTIONS = [
    "pymemcache.client.base:Client._store_cmd", "pymemcache.client.base:Client._misc_cmd",
    "pymemcache.client.base:Client._fetch_cmd", "pymemcache.client.base:Client._extract_value",
    "pymemcache.client.base:Client._connect", "pymemcache.client.base:Client.close",
    "pymemcache.client.base:_readline", "pymemcache.client.base:_readvalue", "pymemcache.client.base:_recv",
    "pymemcache.client.base:Client.set_many", "pymemcache.client.base:Client.delete_many",
    "pymemcache.client.base:PooledClient.set", "pymemcache.client.base:PooledClient.get",
    "pymemcache.pool:ObjectPool.get_and_release", "pymemcache.client.hash:HashClient._run_cmd",
    "pymemcache.client.hash:HashClient._safely_run_func", "pymemcache.client.hash:HashClient.set_many",
    "pymemcache.client.hash:HashClient.get_many",
]

STACK = SHARD.get("stack", "client")
OP1 = SHARD.get("op1", "set")
FOLLOW = tuple(SHARD.get("follow", ("get", "set", "delete_many")))
CUTS = tuple(SHARD.get("cuts", (0, 1, 7)))
MAXF = SHARD.get("maxf", 12)
NSERV = 2 if STACK == "hash2" else 1
RECV = SHARD.get("recv", 4096)
DNR = SHARD.get("default_noreply", True)
DEPTH = SHARD.get("depth", 2)
IGNORE_EXC = SHARD.get("ignore_exc", False)


def h_calls(nr1: int, nr2: int, nr3: int, fat: int, fk: int, cut: int, op2: int, op3: int) -> int:
    """
    pre: 0 <= nr1 <= 2 and 0 <= nr2 <= 2 and 0 <= nr3 <= 2
    pre: 0 <= fat <= MAXF
    pre: 0 <= fk < 10
    pre: 0 <= cut < len(CUTS)
    pre: 0 <= op2 < len(FOLLOW) and 0 <= op3 < len(FOLLOW)
    post: _ != 0
    """
    kind = ops.KINDS[concretize(fk, 0, 9)]
    cutpos = CUTS[concretize(cut, 0, len(CUTS) - 1)]
    calls = [(OP1, ops.NR[concretize(nr1, 0, 2)]), (FOLLOW[concretize(op2, 0, len(FOLLOW) - 1)], ops.NR[concretize(nr2, 0, 2)])]
    if DEPTH >= 3:
        calls.append((FOLLOW[concretize(op3, 0, len(FOLLOW) - 1)], ops.NR[concretize(nr3, 0, 2)]))
    plan = FaultPlan(at=fat, kind=kind)
    r = ops.run_history(STACK, calls, plan, cutpos, nservers=NSERV, default_noreply=DNR, recv_size=RECV,
                        client_kw={"ignore_exc": True} if IGNORE_EXC else None)
    if r[0] == "viol":
        return viol(STACK, calls, "fault", kind, "at", fat, "cut", cutpos, ":", r[1])
    return ok(r[1])


QUICK_OPS = ("set", "set_many", "cas", "get", "get_many", "gets", "delete_many", "incr", "touch", "flush_all")
ALL_OPS = ("set_many_dup", "get_many_dup", "delete_many_dup", "set", "add", "replace", "append", "prepend", "cas", "set_many", "get", "get_miss", "gets", "get_many",
           "gets_many", "gat", "gats", "delete", "delete_many", "incr", "decr", "touch", "flush_all", "version", "stats")


def shards(tier):
    S = []
    if tier == "thorough":
        # every operation on Client; the multi-command / dup-key / cas / quit operations on five further stacks (the full
        # 6-stack x 27-operation grid with 5 cut positions needs ~16 CPU-hours and was cut down to what fits an hour)
        multi = ("set_many", "set_many_dup", "get_many", "get_many_dup", "delete_many", "delete_many_dup", "cas", "quit")
        for st in ("client", "hash2", "pooled1", "pooled2", "hash1", "hash1p"):
            for op in ALL_OPS:
                if st.startswith("hash") and op in ops.NOT_ON_HASH:
                    continue
                if st != "client" and op not in multi:
                    continue
                S.append(dict(fn="h_calls", timeout=900, shard=dict(
                    stack=st, op1=op, follow=("get", "set", "delete_many", "incr") if st == "client" else ("get", "set"),
                    cuts=(0, 1, 7), depth=2)))
        for st in ("client", "pooled1", "hash1"):
            for op in ("get", "gets", "get_many", "gets_many", "gat", "gats", "stats"):
                S.append(dict(fn="h_calls", timeout=900, shard=dict(stack=st, op1=op, follow=("get", "set"),
                                                                    cuts=(0, 7), depth=2, ignore_exc=True)))
        for op in ("set_many", "get_many", "set"):
            S.append(dict(fn="h_calls", timeout=1500, shard=dict(stack="client", op1=op, follow=("get", "set"),
                                                                 cuts=(0,), depth=3)))
            S.append(dict(fn="h_calls", timeout=900, shard=dict(stack="client", op1=op, follow=("get", "set"),
                                                                cuts=(0, 2), depth=2, recv=4, maxf=20)))
            S.append(dict(fn="h_calls", timeout=900, shard=dict(stack="client", op1=op, follow=("get", "set"),
                                                                cuts=(0, 7), depth=2, default_noreply=False)))
        return S
    plan = (("client", ("set", "set_many_dup", "cas", "get", "get_many", "delete_many", "incr", "flush_all")),
            ("pooled1", ("set_many", "get_many_dup", "delete_many_dup")),
            ("hash2", ("set_many", "get_many", "set")))
    for st, oplist in plan:
        for op in oplist:
            heavy = st == "hash2" and op in ("get_many", "set_many")
            S.append(dict(fn="h_calls", timeout=600, shard=dict(stack=st, op1=op, follow=("set",) if heavy else ("get", "set"),
                                                                cuts=(0, 7), depth=2)))
    # ignore_exc=True: a swallowed fetch failure must still leave the connection closed or drained
    for op in ("get", "get_many"):
        S.append(dict(fn="h_calls", timeout=600, shard=dict(stack="client", op1=op, follow=("get", "set"), cuts=(0, 7),
                                                            depth=2, ignore_exc=True)))
    return S


BOUNDS = {
    "quick": "2 calls on one object: first call = 8 operations on Client (2 more with ignore_exc=True), 3 on "
             "PooledClient(max 1), 3 on HashClient(2 servers) (16 shards; multi-key calls include the str and bytes "
             "spelling of one key); second call symbolic among {get, set}; noreply of each call symbolic over "
             "{default, True, False}; one fault, symbolic position over every connect/sendall/recv of the history and "
             "symbolic kind over {timeout, reset, EOF, OSError, ERROR, CLIENT_ERROR, SERVER_ERROR, unparseable line, "
             "truncated reply + EOF}; one cut of the reply stream at offset 7 or none (symbolic)",
    "thorough": "all operations on Client (cuts {none,1,7}, follow-up among 4 operations), the multi-command / dup-key / "
                "cas / quit operations on 5 further stacks, ignore_exc=True for 7 read operations on 3 stacks; 3-call "
                "histories, receive size 4 and default_noreply=False for set_many / get_many / set on Client",
}
OUTSIDE = ("two faults in one history; histories longer than 3 calls; raw_command (C03), quit/shutdown; values other than "
           "the concrete 2-byte ones; BaseException interruptions (C10)")
ASSUMPTIONS = [
    "NetSim/RefServer stand in for the network and memcached (socket_module seam); the server stub runs untraced on "
    "concrete wire data",
    "server-level faults replace a whole reply (a server never emits an error line in the middle of another reply)",
    "`effective_noreply` in harness/ops.py restates the documented noreply defaults",
    "base.RECV_SIZE is rebound inside the checking process when the shard says so",
]
RULE = ("one path = one (noreply choices, fault position, fault kind, cut, follow-up operation) combination; "
        "non-trivial when every call of the history ran and the ownership/blocking/leftover monitors were evaluated "
        "after each; `fault-fired` counts paths on which the injected fault actually struck")
