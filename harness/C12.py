"""C12 - HashClient single-key and multi-key operations agree on where a key lives.

Real HashClient (routing, batching, merging) with
  * hasher = a stub whose get_node() returns the node chosen by a *symbolic assignment vector* (one variable per
    routing key): every way of distributing the keys over the servers is covered, not only murmur3's;
  * client_class = a recording per-server store with the Client API.
Symbolic: the assignment, the subset of the corpus used in the call, the operation; shard: number of servers,
pooling, prefix.
"""
from harness.common import SHARD, concretize, bit
from vkit import clock as vclock
from vkit.net import notrace
from vkit.stats import VIOL, SKIP, OK, ok, skip, viol
from pymemcache.client.hash import HashClient
from pymemcache.client.base import normalize_server_spec

PROP = "C12"
FUNCTIONS = ["pymemcache.client.hash:HashClient._get_client", "pymemcache.client.hash:HashClient._run_cmd",
             "pymemcache.client.hash:HashClient.set_many", "pymemcache.client.hash:HashClient.get_many",
             "pymemcache.client.hash:HashClient.gets_many", "pymemcache.client.hash:HashClient.delete_many",
             "pymemcache.client.hash:HashClient._safely_run_func", "pymemcache.client.hash:HashClient._safely_run_set_many",
             "pymemcache.client.hash:HashClient._set_many", "pymemcache.client.hash:HashClient.add_server",
             "pymemcache.client.hash:HashClient._make_client_key"]
NS = SHARD.get("ns", 3)
POOL = SHARD.get("pooling", False)
PREFIX = SHARD.get("prefix", "").encode()
OPS = ("get", "gets", "set", "add", "delete", "incr", "touch", "get_many", "gets_many", "set_many", "delete_many", "mixed")
OP = SHARD.get("op", "get_many")
FMAX = 3 if OP == "set_many" else 1
A3FIX = SHARD.get("a3")
FMFIX = SHARD.get("fm")
SINGLE = OP in ("get", "gets", "set", "add", "delete", "incr", "touch")   # per-key operations: every key is checked on its own

SERVERS = [("10.0.0.1", 11211), "/tmp/mc2.sock", ("host3", 11212), ("10.0.0.4", 11211)]
# corpus: the str and the bytes spelling of one key, another key, and a (server_key, key) pair
CORPUS = ["k1", b"k1", "k2", ("sk", "k3"), ("k2", b"k4"), ("sk", "k2")]   # the last pair: inner key "k2" routed by "sk"
ROUTING = ["k1", b"k1", "k2", "sk"]          # routing keys -> assignment variables a0..a3


def _rk(key):
    return key[0] if isinstance(key, tuple) else key


def _wk(key):
    k = key[1] if isinstance(key, tuple) else key
    return k


class World:
    def __init__(self):
        self.assign = {}
        self.log = []        # (server, method, key-or-keys)
        self.stores = {}
        self.fail_keys = ()


W = World()


class StubHasher:
    def __init__(self):
        self.nodes = []

    def add_node(self, n):
        if n not in self.nodes:
            self.nodes.append(n)

    def remove_node(self, n):
        self.nodes.remove(n)

    def get_node(self, key):
        for rk, idx in W.assign.items():
            if type(rk) is type(key) and rk == key:
                return self.nodes[idx]
        raise AssertionError("routing asked for unknown key %r" % (key,))


class Store:
    """per-server recording client with the Client API (also used behind PooledClient via client_class)"""

    def __init__(self, server, **kw):
        self.server = server
        self.name = "%s:%s" % server if isinstance(server, tuple) else server
        self.kw = kw
        self.sock = None

    def _d(self):
        return W.stores.setdefault(self.name, {})

    def _k(self, key):
        return key.encode() if isinstance(key, str) else key

    def close(self):
        pass

    def set(self, key, value, expire=0, noreply=None, flags=None):
        W.log.append((self.name, "set", key))
        self._d()[self._k(key)] = value
        return True

    def add(self, key, value, expire=0, noreply=None, flags=None):
        W.log.append((self.name, "add", key))
        if self._k(key) in self._d():
            return False
        self._d()[self._k(key)] = value
        return True

    def get(self, key, default=None):
        W.log.append((self.name, "get", key))
        return self._d().get(self._k(key), default)

    def gets(self, key, default=None, cas_default=None):
        W.log.append((self.name, "gets", key))
        if self._k(key) in self._d():
            return (self._d()[self._k(key)], b"1")
        return (default, cas_default)

    def delete(self, key, noreply=None):
        W.log.append((self.name, "delete", key))
        return self._d().pop(self._k(key), None) is not None

    def incr(self, key, value, noreply=False):
        W.log.append((self.name, "incr", key))
        if self._k(key) not in self._d():
            return None
        self._d()[self._k(key)] = b"%d" % (int(self._d()[self._k(key)]) + value)
        return int(self._d()[self._k(key)])

    def touch(self, key, expire=0, noreply=None):
        W.log.append((self.name, "touch", key))
        return self._k(key) in self._d()

    def get_many(self, keys):
        W.log.append((self.name, "get_many", list(keys)))
        return dict((k, self._d()[self._k(k)]) for k in keys if self._k(k) in self._d())

    def gets_many(self, keys):
        W.log.append((self.name, "gets_many", list(keys)))
        return dict((k, (self._d()[self._k(k)], b"1")) for k in keys if self._k(k) in self._d())

    def set_many(self, values, expire=0, noreply=None, flags=None):
        W.log.append((self.name, "set_many", list(values)))
        failed = []
        for k, v in values.items():
            if k in W.fail_keys:
                failed.append(k)
            else:
                self._d()[self._k(k)] = v
        return failed


class HC(HashClient):
    client_class = Store


def _server_name(i):
    s = SERVERS[i]
    return "%s:%s" % s if isinstance(s, tuple) else s


def h_route(a0: int, a1: int, a2: int, a3: int, subset: int, failmask: int) -> int:
    """
    pre: 0 <= a0 < NS and 0 <= a1 < NS and 0 <= a2 < NS and 0 <= a3 < NS
    pre: 0 <= subset < 64
    pre: 0 <= failmask < FMAX
    post: _ != 0
    """
    if SINGLE and subset != 63:
        return skip("single-key-operations-always-check-the-whole-corpus")
    if A3FIX is not None and a3 != A3FIX:
        return skip("assignment-of-the-last-routing-key-is-a-shard-parameter")
    if FMFIX is not None and failmask != FMFIX:
        return skip("failure-mask-is-a-shard-parameter")
    assign = [concretize(a, 0, NS - 1) for a in (a0, a1, a2, a3)]
    keys = [CORPUS[i] for i in range(6) if bit(subset, i)]
    fm = concretize(failmask, 0, 3)
    if fm and OP != "set_many":
        return skip("failure-mask-only-matters-for-set_many")
    with notrace():
        try:
            return _route_concrete(assign, keys, fm)
        except Exception as e:
            return viol(OP, "keys", keys, "assignment", assign, ": an internal error escaped:", type(e).__name__, e)


def _route_concrete(assign, keys, fm):
    vclock.fresh()
    W.assign = dict(zip(ROUTING, assign)) if False else {}
    # dict keyed by str/bytes: "k1" and b"k1" are distinct dict keys
    W.assign = {}
    for rk, a in zip(ROUTING, assign):
        W.assign[rk] = a
    W.log = []
    W.stores = {}
    W.fail_keys = ()
    c = HC(SERVERS[:NS], hasher=StubHasher, use_pooling=POOL, key_prefix=PREFIX, default_noreply=False)
    names = [_server_name(i) for i in range(NS)]

    def home(key):
        rk = _rk(key)
        for k2, a in W.assign.items():
            if type(k2) is type(rk) and k2 == rk:
                return names[a]
        raise AssertionError(rk)

    def srv(logname):
        return logname

    # pre-populate through single-key set: every key must land on its home server
    for i, key in enumerate(CORPUS):
        W.log = []
        c.set(key, b"%d" % (10 + i))
        if len(W.log) != 1 or srv(W.log[0][0]) != home(key) or W.log[0][2] != _wk(key):
            return viol("set(%r) went to" % (key,), W.log, "home is", home(key))
    op = OP
    if op in ("get", "gets", "add", "delete", "incr", "touch", "set"):
        for key in keys:
            W.log = []
            if op == "incr":
                c.incr(key, 1)
            elif op == "touch":
                c.touch(key, 5)
            elif op == "add":
                c.add(key, b"1")
            elif op == "set":
                c.set(key, b"5")
            else:
                getattr(c, op)(key)
            if len(W.log) != 1:
                return viol(op, repr(key), "caused", len(W.log), "server calls", W.log)
            s, m, k = W.log[0]
            if srv(s) != home(key) or m != op or k != _wk(key):
                return viol(op, "(%r) reached" % (key,), W.log[0], "but the key lives on", home(key))
        return ok("single")
    # multi-key operations
    W.log = []
    if op in ("get_many", "gets_many"):
        res = getattr(c, op)(keys)
        # the same inner key may be requested twice with different routing ("k2" and ("sk", "k2")): the merged dict can hold
        # only one answer per inner key, so any of the per-occurrence answers is acceptable, and a key must be present as soon
        # as one of its occurrences finds it
        allowed = {}
        for key in keys:
            v = c.get(key) if op == "get_many" else c.gets(key)
            found = (v is not None) if op == "get_many" else (v != (None, None))
            allowed.setdefault(_wk(key), [])
            if found:
                allowed[_wk(key)].append(v)
        multi_log = [e for e in W.log if e[1] == op]
        delivered = []
        for s_, m_, ks in multi_log:
            for k in ks:
                delivered.append((srv(s_), type(k).__name__, k))
        required = [(home(key), type(_wk(key)).__name__, _wk(key)) for key in keys]    # one delivery per requested occurrence
        if sorted(map(repr, delivered)) != sorted(map(repr, required)):
            return viol(op, keys, "delivered", delivered, "expected exactly", required)
        if len(set(s_ for s_, _, _ in multi_log)) != len(multi_log):
            return viol(op, "contacted a server more than once:", multi_log)
        for k, vals in allowed.items():
            if vals and (k not in res or res[k] not in vals):
                return viol(op, keys, "returned", res, "but the per-key reads give", allowed)
            if not vals and k in res:
                return viol(op, keys, "returned", res, "although no server holds", k)
        for k in res:
            if k not in allowed:
                return viol(op, keys, "returned an unrequested key", k)
        return ok("multi-read")
    if op == "set_many":
        fail = [k for i, k in enumerate(_wk(x) for x in keys) if fm & (1 << (i % 2))]
        W.fail_keys = tuple(fail)
        values = dict((key, b"new-%d" % i) for i, key in enumerate(keys))
        failed = c.set_many(values)
        delivered = []
        for s, m, ks in W.log:
            if m == "set_many":
                for k in ks:
                    delivered.append((srv(s), k))
        required = []
        for key in keys:
            item = (home(key), type(_wk(key)).__name__, _wk(key))
            if item not in required:
                required.append(item)
        got_pairs = [(s_, type(k).__name__, k) for (s_, k) in delivered]
        for item in required:
            if item not in got_pairs:
                return viol("set_many: key", item[2], "not sent to its home", item[0], "; delivered:", delivered)
        if len(got_pairs) != len(required):
            return viol("set_many", keys, "delivered", delivered, "expected exactly", required)
        exp_failed = [item[2] for item in required if item[2] in fail]      # one entry per (server, key) that failed
        if sorted(map(repr, failed)) != sorted(map(repr, exp_failed)):
            return viol("set_many failed-key list", failed, "expected the union of the per-server failures", exp_failed)
        W.fail_keys = ()
        for i, key in enumerate(keys):
            if _wk(key) in fail:
                continue
            got = c.get(key)
            # "k1" and b"k1" are one wire key: when both live on the same server the later write wins
            twins = [j for j, k2 in enumerate(keys) if home(k2) == home(key) and
                     (_wk(k2).encode() if isinstance(_wk(k2), str) else _wk(k2)) ==
                     (_wk(key).encode() if isinstance(_wk(key), str) else _wk(key)) and _wk(k2) not in fail]
            if got != b"new-%d" % twins[-1]:
                return viol("value written by set_many under", repr(key), "is not found by get:", got)
        return ok("multi-write")
    if op == "delete_many":
        c.delete_many(keys)
        for key in keys:
            if c.get(key) is not None and not any(
                    home(k2) != home(key) for k2 in CORPUS if _wk(k2) == _wk(key)):
                return viol("delete_many left", repr(key), "on its server")
        dl = [(srv(s), k) for s, m, k in W.log if m == "delete"]
        for key in keys:
            if (home(key), _wk(key)) not in [(s, k) for (s, k) in dl if type(k) is type(_wk(key))]:
                return viol("delete_many: key", repr(key), "not deleted on its home", home(key), dl)
        return ok("multi-delete")
    # mixed: written by set_many, found by gets / touch / incr / delete on the same key
    def wire(k):
        w = _wk(k)
        return w.encode() if isinstance(w, str) else w

    for x in keys:
        for y in keys:
            if x is not y and wire(x) == wire(y) and home(x) == home(y):
                return skip("two-spellings-of-one-wire-key-on-one-server")
    values = dict((key, b"7") for key in keys)
    if c.set_many(values) != []:
        return viol("set_many reported failures", keys)
    for key in keys:
        if c.gets(key)[0] != b"7":
            return viol("gets does not find what set_many wrote under", repr(key), "home", home(key))
        if c.touch(key, 1) is not True:
            return viol("touch does not find what set_many wrote under", repr(key))
        if c.incr(key, 1) != 8:
            return viol("incr does not find what set_many wrote under", repr(key))
        if c.delete(key) is not True:
            return viol("delete does not find what set_many wrote under", repr(key))
    return ok("mixed")


def shards(tier):
    out = []
    thorough = tier == "thorough"
    T = 1500 if thorough else 400
    for ns in ((1, 2, 3, 4) if thorough else (2, 3)):
        for op in OPS:
            if not thorough and (ns == 2 and op not in ("get_many", "set_many") or op in ("gets", "add", "touch", "delete", "gets_many")):
                continue
            if op in ("get", "set", "incr", "gets", "add", "touch", "delete"):
                out.append(dict(fn="h_route", timeout=T, shard=dict(ns=ns, op=op)))
                continue
            for a3 in range(ns):
                for fm in ((0, 1, 2) if op == "set_many" else (None,)):
                    sh = dict(ns=ns, op=op, a3=a3)
                    if fm is not None:
                        sh["fm"] = fm
                    out.append(dict(fn="h_route", timeout=T, shard=sh))
    for op in (("get_many", "set_many", "get", "mixed") if thorough else ("get_many",)):
        out.append(dict(fn="h_route", timeout=T, shard=dict(ns=3 if thorough else 2, op=op, pooling=True)))
        out.append(dict(fn="h_route", timeout=T, shard=dict(ns=3 if thorough else 2, op=op, prefix="pf:")))
    return out


BOUNDS = {
    "quick": "3 servers (TCP and UNIX names; 2 servers for get_many/set_many), corpus of 6 keys (the str and bytes spelling of "
             "one key, a plain key, three (server_key, key) pairs, one of which repeats the plain key's name under another "
             "server key), every assignment of the 4 routing keys to servers (symbolic), every subset of the corpus "
             "(symbolic) x 8 operations (thorough 12) (single-key get/gets/set/add/delete/incr/touch, get_many, gets_many, "
             "set_many with symbolic per-server failures, delete_many, written-by-set_many-found-by-others), pooling and "
             "prefix variants",
    "thorough": "1..4 servers",
}
OUTSIDE = "key sets larger than 5; more than 4 servers; failing servers (C13)"
ASSUMPTIONS = ["the hasher is a stub returning the node chosen by a symbolic assignment vector (covers every placement)",
               "client_class is a recording per-server store with the Client API"]
RULE = ("one path = one (assignment, subset, failure mask) combination enumerated by the solver; non-trivial when the "
        "operation ran and per-server call logs / merged results were compared with the assignment")
