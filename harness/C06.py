"""C06 - connection lifecycle: errors close, next call reconnects, no socket leaks, right timeouts.

Real code: Client._connect / close and every call path (also inside PooledClient / HashClient), against NetSim
with environment faults: any of getaddrinfo, socket(), setsockopt, wrap_socket, settimeout, connect, sendall, recv,
close may raise at a symbolic occurrence (two faults per history).
"""
import socket as _socket

from harness.common import SHARD, concretize, load_known
from harness import ops
from vkit import clock as vclock
from vkit.net import NetSim, TLSContext
from vkit.stats import VIOL, SKIP, OK, ok, skip, viol
import pymemcache.client.base as B
from pymemcache.client.base import Client, PooledClient
from pymemcache.client.hash import HashClient

PROP = "C06"
FUNCTIONS = ["pymemcache.client.base:Client._connect", "pymemcache.client.base:Client.close",
             "pymemcache.client.base:Client._fetch_cmd", "pymemcache.client.base:Client._store_cmd",
             "pymemcache.client.base:Client._misc_cmd", "pymemcache.client.base:PooledClient._create_client",
             "pymemcache.pool:ObjectPool.get_and_release", "pymemcache.pool:ObjectPool.destroy",
             "pymemcache.pool:ObjectPool.clear", "pymemcache.client.hash:HashClient.add_server"]
KNOWN = load_known(PROP)

TRANSPORT = SHARD.get("transport", "tcp1")   # tcp1 tcp2 tcp3 unix tls
STACK = SHARD.get("stack", "client")
EVENTS = ("none", "getaddrinfo", "socket", "setsockopt", "wrap_socket", "settimeout", "connect", "sendall", "recv", "close")
HOST = "mc.example"
UNIX = "/tmp/mc.sock"


class Boom(OSError):
    pass


def _mk_exc(kind):
    if kind == 0:
        return Boom(5, "injected environment failure")
    if kind == 1:
        return _socket.timeout("injected timeout")
    return _socket.gaierror(-2, "injected resolver failure")


HISTORY = tuple(SHARD.get("history", ("get", "set", "get", "get")))
F1 = SHARD.get("f1", 0)                       # first failing call kind: a shard parameter
F2SET = tuple(SHARD.get("f2set", range(10)))   # candidates for the second failing call kind
OMAX = SHARD.get("omax", 2)
TNONE = SHARD.get("tnone")                    # which of the two timeouts is None (blocking): None / "io" / "connect" / "both"


def h_lifecycle(o1: int, f2: int, o2: int, kind: int, ct: int, to: int, nodelay: bool) -> int:
    """
    pre: 0 <= f2 < len(F2SET)
    pre: 0 <= o1 <= OMAX and 0 <= o2 <= OMAX
    pre: 0 <= kind <= 2
    pre: 1 <= ct <= 3 and 4 <= to <= 6
    post: _ != 0
    """
    vclock.fresh()
    B.RECV_SIZE = 4096
    if TNONE in ("io", "both"):
        to = None             # "block forever" must be put in force after the connect as well
    if TNONE in ("connect", "both"):
        ct = None
    e1 = EVENTS[F1]
    e2 = EVENTS[F2SET[concretize(f2, 0, len(F2SET) - 1)]]
    o1 = concretize(o1, 0, OMAX)
    o2 = concretize(o2, 0, OMAX)
    kind = concretize(kind, 0, 2)
    plan = []
    if e1 != "none":
        plan.append((e1, o1, _mk_exc(kind)))
    if e2 != "none" and (e2, o2) != (e1, o1):
        plan.append((e2, o2, _mk_exc(kind)))
    if "C06-addr-fallback" in KNOWN and TRANSPORT in ("tcp2", "tcp3") and any(p[0] in ("socket", "setsockopt", "wrap_socket") for p in plan):
        return skip("known-finding-region")
    servers, _ = ops.fresh_servers(1)
    srv = servers[ops.ADDR1]
    nservers = {}
    addresses = {}
    if TRANSPORT == "unix":
        nservers[UNIX] = srv
        server_spec = UNIX
    else:
        n = {"tcp1": 1, "tcp2": 2, "tcp3": 3, "tls": 1}[TRANSPORT]
        sas = [("10.0.0.%d" % (i + 1), 11211) for i in range(n)]
        for sa in sas:
            nservers[sa] = srv
        addresses[HOST] = [(NetSim.AF_INET6 if i == 0 and n > 1 else NetSim.AF_INET, sa) for i, sa in enumerate(sas)]
        server_spec = (HOST, 11211)
    net = NetSim(nservers, None, addresses=addresses)
    net.env_plan = plan
    net.expect_io_timeout = to
    net.max_open = 1
    kw = dict(socket_module=net, connect_timeout=ct, timeout=to, no_delay=nodelay, default_noreply=False)
    if TRANSPORT == "tls":
        kw["tls_context"] = TLSContext(net)
        net.tls_expected = True
    if STACK == "client":
        c = Client(server_spec, **kw)
    elif STACK == "pooled":
        c = PooledClient(server_spec, max_pool_size=1, **kw)
    else:
        c = HashClient([server_spec], retry_attempts=0, dead_timeout=0, retry_timeout=0,
                       use_pooling=(STACK == "hashp"), **kw)
    history = HISTORY
    nsock_at_failure = None
    for k, name in enumerate(history, 1):
        net.begin_call(k)
        fired_before = len(net.env_fired)
        try:
            if name == "get":
                c.get("k1")
            elif name == "set":
                c.set("k1", b"zz")
            elif name == "delete_nr":
                c.delete("k1", noreply=True)
            elif name == "touch_nr":
                c.touch("k1", 9, noreply=True)
            elif name == "set_nr":
                c.set("k1", b"zz", noreply=True)
            else:
                c.incr("n", 1, noreply=False)
            raised = None
        except Exception as e:
            raised = e
        if net.violations:
            return viol(TRANSPORT, STACK, "plan", plan, "call", k, ":", net.violations[0])
        fired_now = len(net.env_fired) > fired_before
        if raised is not None and not fired_now and not (STACK.startswith("hash")):
            return viol(TRANSPORT, STACK, "plan", plan, "call", k, name, "raised", type(raised).__name__, raised,
                        "although no injected failure struck during it (the previous failure was not cleaned up)")
        if raised is not None:
            nsock_at_failure = len(net.sockets)
        if raised is None and not fired_now:
            # a clean call after a failed one must run on a fresh socket, connected under connect_timeout
            live = [s for s in net.sockets if s.open]
            if nsock_at_failure is not None and live and live[0].sid < nsock_at_failure:
                return viol(TRANSPORT, STACK, "plan", plan, "call", k, name, "ran on socket", live[0].sid,
                            "which already existed when an earlier call failed (no fresh connection)")
            if len(live) != 1:
                return viol(TRANSPORT, STACK, "plan", plan, "after successful call", k, len(live), "sockets are open")
            if live[0].timeout_at_connect != ct:
                return viol(TRANSPORT, STACK, "socket connected under timeout", live[0].timeout_at_connect,
                            "instead of connect_timeout", ct)
    # every socket that was ever connected must have been connected under connect_timeout
    for s in net.sockets:
        if s.connected and s.timeout_at_connect != ct:
            return viol(TRANSPORT, STACK, "a socket connected under timeout", s.timeout_at_connect, "not", ct)
    try:
        c.close()
    except Exception as e:
        if not any(p[0] == "close" for p in plan):
            return viol(TRANSPORT, STACK, "close() raised", type(e).__name__)
    left = [s.sid for s in net.sockets if s.open]
    if left:
        return viol(TRANSPORT, STACK, "plan", plan, ": sockets", left, "of", len(net.sockets), "are still open after close()")
    return ok("faults-%d" % len(net.env_fired))


def shards(tier):
    S = []
    thorough = tier == "thorough"
    combos = [("tcp1", "client"), ("tcp2", "client"), ("unix", "client"), ("tls", "client"), ("tcp1", "pooled"),
              ("tcp2", "hash")]
    if thorough:
        combos += [("tcp3", "client"), ("tcp2", "pooled"), ("tls", "pooled"), ("unix", "hash"), ("tcp1", "hashp"),
                   ("tls", "hash")]
    for tr, st in combos:
        for f1 in range(10):
            if EVENTS[f1] == "wrap_socket" and tr != "tls":
                continue
            if EVENTS[f1] == "getaddrinfo" and tr == "unix":
                continue
            S.append(dict(fn="h_lifecycle", timeout=1800 if thorough else 400, shard=dict(
                transport=tr, stack=st, f1=f1, omax=3 if thorough else 2,
                f2set=list(range(10)) if thorough else [0, 2, 6, 8])))
            if (tr, st) in (("tcp1", "client"), ("tcp2", "hash")) or thorough:
                # histories with noreply commands: a failed send must still close the connection
                S.append(dict(fn="h_lifecycle", timeout=1800 if thorough else 400, shard=dict(
                    transport=tr, stack=st, f1=f1, omax=3 if thorough else 2, history=["delete_nr", "get", "touch_nr", "incr"],
                    f2set=list(range(10)) if thorough else [0, 7])))
                S.append(dict(fn="h_lifecycle", timeout=1800 if thorough else 400, shard=dict(
                    transport=tr, stack=st, f1=f1, omax=3 if thorough else 2, history=["set_nr", "set_nr", "get", "delete_nr"],
                    f2set=list(range(10)) if thorough else [0, 7])))
    for tr, st in combos:
        for f1 in ((0, 6, 7, 8) if thorough else (0, 6, 8)):       # none / connect / sendall / recv fails first
            for tn in (("io", "connect", "both") if thorough else ("io", "connect")):
                S.append(dict(fn="h_lifecycle", timeout=1800 if thorough else 400, shard=dict(
                    transport=tr, stack=st, f1=f1, omax=2, f2set=[0, 6], tnone=tn)))
    return S


BOUNDS = {
    "quick": "4-call histories (get, set, get, get; and two with noreply delete/touch/set on Client and HashClient) then close(); first failure: any of {none, getaddrinfo, socket(), "
             "setsockopt, wrap_socket, settimeout, connect, sendall, recv, close} (shard) at a symbolic occurrence 0..2; "
             "second failure: symbolic among {none, socket(), connect, recv} at a symbolic occurrence 0..2; symbolic error kind {OSError, socket.timeout, gaierror}; connect_timeout in 1..3 and timeout in 4..6 "
             "symbolic (and either of them None = blocking, for first failure none / connect / recv), no_delay symbolic; transports TCP with 1/2 resolved addresses, UNIX, TLS on Client; PooledClient "
             "(TCP) and HashClient (2 addresses)",
    "thorough": "second failure over all 9 call kinds, occurrences 0..3; adds 3 resolved addresses, pooled/hash stacks over TLS/UNIX/2 addresses, pooled HashClient",
}
OUTSIDE = "more than two failures per history; more than 3 resolved addresses; keepalive options (Linux-only branch)"
ASSUMPTIONS = ["NetSim stands in for the socket module; its monitors count open sockets at every event and record the "
               "timeout in force at connect/sendall/recv",
               "with 2-3 resolved addresses the first is AF_INET6 and the rest AF_INET, all leading to the same server"]
RULE = ("one path = one (failure plan, error kind, timeouts, no_delay) combination; non-trivial when the whole history and "
        "close() ran and the socket/timeouts monitors were evaluated")
