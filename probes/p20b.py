"""Cost probe for C05: real Client + mini faithful server, symbolic op history, lockstep API-level model."""
import os
from typing import List
from pymemcache.client.base import Client

DEPTH = int(os.environ.get("DEPTH", "2"))
try:
    from crosshair.tracers import NoTracing
except ImportError:
    NoTracing = None
EXPS = [0, -1, 5, 50]
KEYS = ["ka", "kb"]

class Server:
    def __init__(self): self.items = {}; self.now = 1000; self.cas = 0
    def _live(self, k):
        it = self.items.get(k)
        if it is None: return None
        if it[2] != 0 and it[2] <= self.now:
            del self.items[k]; return None
        return it
    def _exp(self, e):
        if e == 0: return 0
        if e < 0: return 1            # already expired
        return self.now + e
    def handle(self, data: bytes) -> bytes:
        out = b""
        while data:
            eol = data.index(b"\r\n"); f = data[:eol].split(b" "); data = data[eol + 2:]
            verb = f[0]; noreply = f[-1] == b"noreply"
            if noreply: f = f[:-1]
            if verb in (b"set", b"add", b"replace", b"append", b"prepend", b"cas"):
                k, fl, ex, n = f[1], int(f[2]), int(f[3]), int(f[4]); val = data[:n]; assert data[n:n + 2] == b"\r\n"; data = data[n + 2:]
                cur = self._live(k); r = b"STORED"
                if verb == b"add" and cur is not None: r = b"NOT_STORED"
                elif verb in (b"replace", b"append", b"prepend") and cur is None: r = b"NOT_STORED"
                elif verb == b"cas":
                    if cur is None: r = b"NOT_FOUND"
                    elif cur[3] != int(f[5]): r = b"EXISTS"
                if r == b"STORED":
                    self.cas += 1
                    if verb == b"append": self.items[k] = (cur[0], cur[1] + val, cur[2], self.cas)
                    elif verb == b"prepend": self.items[k] = (cur[0], val + cur[1], cur[2], self.cas)
                    else: self.items[k] = (fl, val, self._exp(ex), self.cas)
                if not noreply: out += r + b"\r\n"
            elif verb in (b"get", b"gets"):
                for k in f[1:]:
                    it = self._live(k)
                    if it is not None:
                        out += b"VALUE " + k + b" %d %d" % (it[0], len(it[1])) + (b" %d" % it[3] if verb == b"gets" else b"") + b"\r\n" + it[1] + b"\r\n"
                out += b"END\r\n"
            elif verb == b"delete":
                r = b"DELETED" if self._live(f[1]) is not None else b"NOT_FOUND"
                self.items.pop(f[1], None)
                if not noreply: out += r + b"\r\n"
            elif verb in (b"incr", b"decr"):
                it = self._live(f[1])
                if it is None: r = b"NOT_FOUND"
                elif not it[1].isdigit(): r = b"CLIENT_ERROR cannot increment or decrement non-numeric value"
                else:
                    v = int(it[1]); d = int(f[2]); v = (v + d) % 2**64 if verb == b"incr" else max(0, v - d)
                    self.cas += 1; self.items[f[1]] = (it[0], b"%d" % v, it[2], self.cas); r = b"%d" % v
                if not noreply: out += r + b"\r\n"
            elif verb == b"touch":
                it = self._live(f[1])
                if it is not None: self.items[f[1]] = (it[0], it[1], self._exp(int(f[2])), it[3])
                if not noreply: out += (b"TOUCHED" if it is not None else b"NOT_FOUND") + b"\r\n"
            else:
                raise AssertionError(verb)
        return out

class Net:
    AF_UNIX = 1; SOCK_STREAM = 1; AF_UNSPEC = 0; IPPROTO_TCP = 6; TCP_NODELAY = 1
    def __init__(self): self.srv = Server()
    def socket(self, *a): return Sock(self)
    def getaddrinfo(self, h, p, *a): return [(2, 1, 6, "", (h, p))]
class Sock:
    def __init__(self, net): self.net = net; self.out = b""
    def settimeout(self, t): pass
    def setsockopt(self, *a): pass
    def connect(self, a): pass
    def close(self): pass
    def sendall(self, d):
        self.out += self.net.srv.handle(d)
    def recv(self, n):
        assert self.out, "would block"
        r, self.out = self.out, b""; return r

class Model:
    """API-level map with expiry and cas versions (what the documentation promises)"""
    def __init__(self): self.m = {}; self.now = 1000; self.ver = 0
    def live(self, k):
        it = self.m.get(k)
        if it is None: return None
        if it[1] != 0 and it[1] <= self.now: del self.m[k]; return None
        return it
    def exp(self, e): return 0 if e == 0 else (1 if e < 0 else self.now + e)
    def put(self, k, v, e): self.ver += 1; self.m[k] = (v, self.exp(e), self.ver)

def h(ops: List[int], ks: List[int], nr: List[bool], ex: List[int], dt: List[int]) -> bool:
    """
    pre: len(ops) == DEPTH and len(ks) == DEPTH and len(nr) == DEPTH and len(ex) == DEPTH and len(dt) == DEPTH
    pre: all(0 <= o <= 8 for o in ops) and all(0 <= k <= 1 for k in ks)
    pre: all(0 <= e <= 3 for e in ex) and all(0 <= d <= 100 for d in dt)
    post: _
    """
    net = Net(); c = Client(("h", 1), socket_module=net, default_noreply=False); M = Model()
    for i in range(DEPTH):
        net.srv.now += dt[i]; M.now += dt[i]
        k = KEYS[ks[i]]; o = ops[i]; n = nr[i]; cur = M.live(k)
        e = 0 if ex[i] == 0 else (-1 if ex[i] == 1 else (5 if ex[i] == 2 else 50))
        if o == 0:
            got = c.set(k, b"5", expire=e, noreply=n); want = True; M.put(k, b"5", e)
        elif o == 1:
            got = c.add(k, b"x", expire=e, noreply=n); want = True if n else cur is None
            if cur is None: M.put(k, b"x", e)
        elif o == 2:
            got = c.replace(k, b"7", expire=e, noreply=n); want = True if n else cur is not None
            if cur is not None: M.put(k, b"7", e)
        elif o == 3:
            got = c.get(k); want = cur[0] if cur else None
        elif o == 4:
            got = c.delete(k, noreply=n); want = True if n else cur is not None
            M.m.pop(k, None)
        elif o == 5:
            try: got = c.incr(k, 3, noreply=n)
            except Exception as exn: got = type(exn).__name__
            if cur is None: want = None
            elif not cur[0].isdigit(): want = "MemcacheClientError"
            else:
                v = b"%d" % (int(cur[0]) + 3); M.ver += 1; M.m[k] = (v, cur[1], M.ver); want = int(v)
            if n and want != "MemcacheClientError": want = None
            if n and want == "MemcacheClientError": want = None
        elif o == 6:
            got = c.touch(k, expire=e, noreply=n); want = True if n else cur is not None
            if cur is not None: M.m[k] = (cur[0], M.exp(e), cur[2])
        elif o == 7:
            got = c.gets(k); want = (cur[0], b"%d" % cur[2]) if cur else (None, None)
        else:
            got = c.cas(k, b"9", M.ver if ks[i] == 0 else 0, expire=e, noreply=n)
            if n: want = True
            elif cur is None: want = None
            else: want = cur[2] == (M.ver if ks[i] == 0 else 0)
            if cur is not None and cur[2] == (M.ver if ks[i] == 0 else 0): M.put(k, b"9", e)
        if got != want: return False
    sv = {}
    for k in list(net.srv.items):
        it = net.srv._live(k)
        if it is not None: sv[k] = (it[1], it[2])
    mv = {}
    for k in list(M.m):
        it = M.live(k)
        if it is not None: mv[k.encode()] = (it[0], it[1])
    return sv == mv
