import pymemcache.client.base as base
from pymemcache.client.base import Client

class Net:
    AF_UNIX = 1; SOCK_STREAM = 1; AF_UNSPEC = 0; IPPROTO_TCP = 6; TCP_NODELAY = 1
    def __init__(self, cut): self.store = {}; self.cut = cut
    def socket(self, *a): return Sock(self)
    def getaddrinfo(self, host, port, *a): return [(2, 1, 6, "", (host, port))]
class Sock:
    def __init__(self, net): self.net = net; self.out = b""
    def settimeout(self, t): pass
    def setsockopt(self, *a): pass
    def connect(self, a): pass
    def close(self): pass
    def sendall(self, d):
        # minimal faithful server for: set <k> <f> <e> <n>\r\n<data>\r\n   and   get <k>\r\n
        eol = d.find(b"\r\n")
        line = d[:eol]
        if line.startswith(b"set "):
            f = line.split(b" ")
            n = int(f[4])
            self.net.store[bytes(f[1])] = (f[2], d[eol + 2: eol + 2 + n])
            self.out = self.out + b"STORED\r\n"
        else:
            k = bytes(line[4:])
            if k in self.net.store:
                fl, v = self.net.store[k]
                self.out = self.out + b"VALUE " + k + b" " + fl + b" " + str(len(v)).encode() + b"\r\n" + v + b"\r\n"
            self.out = self.out + b"END\r\n"
    def recv(self, n):
        lim = n
        if self.net.cut > 0:
            lim = min(n, self.net.cut); self.net.cut = 0
        r, self.out = self.out[:lim], self.out[lim:]
        return r

def h_rt(value: bytes, cut: int) -> bool:
    """
    pre: len(value) == 5
    pre: 0 <= cut <= 24
    post: _
    """
    base.RECV_SIZE = 4
    net = Net(cut)
    c = Client(("h", 1), socket_module=net)
    if c.set("k", value, noreply=False) is not True: return False
    return c.get("k") == value
