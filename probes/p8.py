import socket as realsock
from pymemcache.client.base import Client

class Net:
    """socket_module stand-in + tiny faithful server; every reply byte is tagged with the call that caused it"""
    AF_UNIX = 1; SOCK_STREAM = 1; AF_UNSPEC = 0; IPPROTO_TCP = 6; TCP_NODELAY = 1
    timeout = realsock.timeout
    error = OSError
    def __init__(self, fault_at, fault_kind, cut):
        self.fault_at, self.fault_kind, self.cut = fault_at, fault_kind, cut
        self.ncall = 0
        self.socks = []
        self.cur_call = 0
        self.store = {}
        self.misread = False
    def socket(self, *a):
        s = Sock(self); self.socks.append(s); return s
    def getaddrinfo(self, host, port, *a):
        return [(2, 1, 6, "", (host, port))]
    def tick(self):
        i = self.ncall; self.ncall += 1
        return i == self.fault_at

class Sock:
    def __init__(self, net):
        self.net = net; self.closed = False; self.q = []   # list of (bytes, owner_call)
        self.first = True
    def settimeout(self, t): pass
    def setsockopt(self, *a): pass
    def connect(self, addr):
        if self.net.tick() and self.net.fault_kind == 0: raise ConnectionRefusedError()
    def close(self): self.closed = True
    def sendall(self, data):
        assert not self.closed
        n = self.net
        if self.net.tick():
            if self.net.fault_kind == 1: raise BrokenPipeError()
        if n.fault_kind == 5 and n.fault_at == 7 + n.cur_call:
            if b"noreply" not in data.split(b"\r\n")[0]:
                self.q.append((b"SERVER_ERROR oops\r\n", n.cur_call))
            return
        # faithful-server: parse concrete request, produce reply
        if data.startswith(b"set "):
            if b"noreply" not in data.split(b"\r\n")[0]:
                self.q.append((b"STORED\r\n", n.cur_call))
        elif data.startswith(b"get "):
            self.q.append((b"VALUE k 0 2\r\nhi\r\nEND\r\n", n.cur_call))
        elif data.startswith(b"delete "):
            if b"noreply" not in data: self.q.append((b"DELETED\r\n", n.cur_call))
    def recv(self, size):
        assert not self.closed
        n = self.net
        if n.tick():
            if n.fault_kind == 2: raise realsock.timeout()
            if n.fault_kind == 3: raise ConnectionResetError()
            if n.fault_kind == 4: return b""
        if not self.q:
            n.misread = True   # would block forever: waited for a reply that never comes
            raise realsock.timeout()
        data, owner = self.q[0]
        if owner != n.cur_call:
            n.misread = True
        if self.first and 0 < n.cut < len(data):
            self.first = False
            self.q[0] = (data[n.cut:], owner)
            return data[:n.cut]
        self.q.pop(0)
        return data

def h_two_calls(op1: int, noreply1: bool, fault_at: int, fault_kind: int, cut: int) -> bool:
    """
    pre: 0 <= op1 <= 2
    pre: 0 <= fault_at <= 9
    pre: 0 <= fault_kind <= 5
    pre: 0 <= cut <= 8
    post: _
    """
    net = Net(fault_at, fault_kind, cut)
    c = Client(("h", 1), socket_module=net)
    net.cur_call = 1
    try:
        if op1 == 0: c.set("k", b"v", noreply=noreply1)
        elif op1 == 1: c.get("k")
        else: c.delete("k", noreply=noreply1)
    except (OSError, Exception):
        pass
    net.cur_call = 2
    try:
        r = c.get("k")
    except Exception:
        r = "raised"
    if net.misread: return False
    open_socks = [s for s in net.socks if not s.closed]
    return len(open_socks) <= 1
