from pymemcache.client.base import Client
from pymemcache.exceptions import MemcacheIllegalInputError

class Net:
    AF_UNIX = 1; SOCK_STREAM = 1; AF_UNSPEC = 0; IPPROTO_TCP = 6; TCP_NODELAY = 1
    def __init__(self): self.sent = []
    def socket(self, *a): return Sock(self)
    def getaddrinfo(self, host, port, *a): return [(2, 1, 6, "", (host, port))]
class Sock:
    def __init__(self, net): self.net = net
    def settimeout(self, t): pass
    def setsockopt(self, *a): pass
    def connect(self, a): pass
    def close(self): pass
    def sendall(self, d): self.net.sent.append(d)
    def recv(self, n): return b"STORED\r\n"

def bad(b: int) -> bool:
    return b == 0 or b == 32 or (9 <= b <= 13)

def h_set(key: bytes, value: bytes, flags: int, expire: int) -> bool:
    """
    pre: 1 <= len(key) <= 3 and len(value) <= 3
    pre: 0 <= flags < 2**32
    post: _
    """
    net = Net()
    c = Client(("h", 1), socket_module=net)
    try:
        c.set(key, value, expire=expire, noreply=False, flags=flags)
    except MemcacheIllegalInputError:
        return len(net.sent) == 0
    if len(net.sent) != 1: return False
    wire = net.sent[0]
    # strict parse: "set <key> <flags> <exp> <len>\r\n<data>\r\n" and nothing more
    eol = wire.find(b"\r\n")
    if eol < 0: return False
    line = wire[:eol]
    if not line.startswith(b"set "): return False
    rest = line[4:]
    sp = rest.find(b" ")
    if sp < 0: return False
    k = rest[:sp]
    if k != key: return False
    for ch in k:
        if bad(ch): return False
    tail = rest[sp+1:]
    want = str(flags).encode() + b" " + str(expire).encode() + b" " + str(len(value)).encode()
    if tail != want: return False
    body = wire[eol+2:]
    return body == value + b"\r\n"
