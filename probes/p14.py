import os, ast, inspect, textwrap
import pymemcache.pool as P
import ilv

MUT = os.environ.get("MUT", "")

def build():
    src = textwrap.dedent(inspect.getsource(P.ObjectPool))
    if MUT == "nolock_release":
        a = src.index("def release"); b = src.index("def clear")
        seg = src[a:b].replace("        with self._lock:\n", "        if True:\n")
        src = src[:a] + seg + src[b:]
    if MUT == "check_outside_lock":
        src = src.replace("                curr_count = len(self._used_objs)\n", "                curr_count = self._peek\n")
        src = src.replace("    def get(self):\n        with self._lock:", "    def get(self):\n        self._peek = len(self._used_objs)\n        with self._lock:")
    tree = ast.parse(src)
    ilv.Rewriter().visit(tree.body[0]); ast.fix_missing_locations(tree)
    ns = dict(P.__dict__); ns["__acquire__"] = ilv.__acquire__
    exec(compile(tree, "<ilv:pool.py>", "exec"), ns)
    return ns["ObjectPool"]
GPool = build()

class SimLock:
    def __init__(self): self.held = False
    def acquire(self, blocking=True):
        if self.held: return False
        self.held = True; return True
    def release(self):
        assert self.held; self.held = False

class Obj:
    n = 0
    def __init__(self): Obj.n += 1; self.id = Obj.n; self.holders = 0; self.closed = 0; self._last_used = 0

def ctx_enter(cm):
    for item in cm:
        if item[0] == "CTX": return item[1]
        yield item
    raise RuntimeError("generator didn't yield")

def ctx_exit(cm, exc):
    try:
        item = next(cm) if exc is None else cm.throw(exc)
        while True:
            if item[0] == "CTX": raise RuntimeError("generator didn't stop")
            yield item
            item = next(cm)
    except StopIteration:
        return

def worker(pool, mode, bad):
    cm = pool.get_and_release(destroy_on_fail=True)
    try:
        obj = yield from ctx_enter(cm)
    except RuntimeError as e:
        if "Too many" in str(e): return
        raise
    try:
        obj.holders += 1
        yield ("use", obj.id)
        if obj.holders != 1: bad.append("shared")
        if obj.closed: bad.append("use-after-close")
        yield ("use2", obj.id)
        obj.holders -= 1
        if mode == 1: raise OSError("fail")
    except OSError as e:
        try:
            yield from ctx_exit(cm, e)
        except OSError:
            pass
    else:
        yield from ctx_exit(cm, None)

def run(first, pts, tos, modes, max_size):
    Obj.n = 0
    created = []
    def creator():
        o = Obj(); created.append(o); return o
    def after_remove(o): o.closed += 1
    pool = GPool(creator, after_remove=after_remove, max_size=max_size, lock_generator=SimLock)
    bad = []
    n = len(modes)
    gens = [worker(pool, modes[t], bad) for t in range(n)]
    alive = [True] * n
    cur = first; step = 0; j = 0; spins = 0
    while any(alive):
        if j < len(pts) and step == pts[j]:
            cur = tos[j]; j += 1
        if not alive[cur]:
            cur = (cur + 1) % n; continue
        try:
            r = next(gens[cur])
        except StopIteration:
            alive[cur] = False; continue
        except Exception as e:
            bad.append("internal:" + type(e).__name__); alive[cur] = False; continue
        step += 1
        if len(pool._used_objs) + len(pool._free_objs) > max_size: bad.append("size")
        if r[0] == "blocked":
            spins += 1
            if spins > 2 * n: bad.append("deadlock"); break
            cur = (cur + 1) % n
        else:
            spins = 0
    if len(pool._used_objs) != 0: bad.append("leaked-checkout")
    for o in created:
        infree = sum(1 for f in pool._free_objs if f is o)
        if infree + o.closed != 1: bad.append("not-free-xor-closed-once")
    return bad

def h(first: int, p1: int, p2: int, t1: int, t2: int, m0: int, m1: int, ms: int) -> bool:
    """
    pre: 0 <= first <= 1 and 0 <= t1 <= 1 and 0 <= t2 <= 1
    pre: 0 <= m0 <= 1 and 0 <= m1 <= 1 and 1 <= ms <= 2
    pre: 0 <= p1 < p2 <= 40
    post: _
    """
    return run(first, [p1, p2], [t1, t2], [m0, m1], ms) == []
