from typing import List, Union, Tuple, Optional
import os
from pymemcache.client.rendezvous import RendezvousHash
from pymemcache import serde as S
import pymemcache.client.retrying as R

# ---- C11: get_node == argmax(score, name) for every score function, every insertion order
NAMES = ["a:1", "b:2", "/tmp/s", "c:3", "a:10"]
def h_rdv(scores: List[int], order: int) -> bool:
    """
    pre: len(scores) == 4
    pre: all(0 <= s < 2**32 for s in scores)
    pre: 0 <= order < 24
    post: _
    """
    names = NAMES[:4]
    # order-th permutation of insertion order
    idx = [0, 1, 2, 3]; perm = []; o = order
    for k in (4, 3, 2, 1):
        perm.append(idx.pop(o % k)); o //= k
    table = {}
    for i in range(4): table[names[i] + "-key"] = scores[i]
    r = RendezvousHash(hash_function=lambda s, seed: table[s])
    for i in perm: r.add_node(names[i])
    got = r.get_node("key")
    best = None
    for i in range(4):
        if best is None or scores[i] > scores[best] or (scores[i] == scores[best] and names[i] > names[best]):
            best = i
    return got == names[best]

# ---- C15: type/flag algebra with stub codec
def h_serde(v: Union[bytes, str, int, bool, None], mcl: int, comp: bytes) -> bool:
    """
    pre: len(comp) <= 6
    pre: -1 <= mcl <= 6
    post: _
    """
    if isinstance(v, (bytes, str)) and len(v) > 4: return True
    if isinstance(v, int) and not isinstance(v, bool) and not (-10**6 < v < 10**6): return True
    seen = {}
    def compress(x):
        if not isinstance(x, bytes): raise TypeError("a bytes-like object is required")
        seen["in"] = x
        return comp
    def decompress(x):
        assert x == comp
        return seen["in"]
    sd = S.CompressedSerde(compress=compress, decompress=decompress, min_compress_len=mcl)
    data, flags = sd.serialize("k", v)
    if not (0 <= flags < 65536): return False
    if isinstance(data, str):
        data = data.encode("ascii")
    compressed = bool(flags & S.FLAG_COMPRESSED)
    if compressed != ("in" in seen and data == comp and len(comp) <= len(seen["in"])): 
        # flag set exactly when the codec output is what is stored
        if not ("in" in seen and comp == seen["in"]): return False
    back = sd.deserialize("k", data, flags)
    return back == v and type(back) is type(v)

# ---- C17: retry decision table
class B(Exception): pass
class S1(B): pass
class S2(B): pass
class O(Exception): pass
CLS = [None, B, S1, S2, O]
def h_retry(attempts: int, outs: List[int], rf: int, dnr: int) -> bool:
    """
    pre: 1 <= attempts <= 4
    pre: len(outs) == 4 and all(0 <= o <= 4 for o in outs)
    pre: 0 <= rf < 16 and 0 <= dnr < 16 and rf & dnr == 0
    post: _
    """
    sleeps = []
    R.sleep = lambda d: sleeps.append(d)
    calls = []
    class Inner:
        def get(self, k):
            i = len(calls); calls.append(k)
            if outs[i] == 0: return ("ok", i)
            raise CLS[outs[i]]("e%d" % i)
    rfc = [CLS[i + 1] for i in range(4) if rf >> i & 1]
    dnc = [CLS[i + 1] for i in range(4) if dnr >> i & 1]
    rc = R.RetryingClient(Inner(), attempts=attempts, retry_delay=7, retry_for=rfc or None, do_not_retry_for=dnc or None)
    try:
        res = ("ret", rc.get("k"))
    except Exception as e:
        res = ("exc", str(e))
    # spec
    n = 0; exp = None
    while True:
        o = outs[n]; n += 1
        if o == 0: exp = ("ret", ("ok", n - 1)); break
        c = CLS[o]
        retry = n < attempts and (not rfc or issubclass(c, tuple(rfc))) and not (dnc and issubclass(c, tuple(dnc)))
        if not retry: exp = ("exc", "e%d" % (n - 1)); break
    return res == exp and len(calls) == n and sleeps == [7] * (n - 1)
