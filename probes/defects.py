import sys, socket, types, traceback
sys.path.insert(0, "/repo")
from pymemcache.client.base import Client, PooledClient, check_key_helper, _readsegment
from pymemcache.client.hash import HashClient
from pymemcache import serde
from pymemcache.test.utils import MockMemcacheClient
from pymemcache.fallback import FallbackClient

def show(name, f):
    try: print(f"{name}: ->", repr(f()))
    except BaseException as e: print(f"{name}: raised {type(e).__name__}: {e}")

class S:
    def __init__(self, recvs, log=None): self.recvs=list(recvs); self.sent=[]; self.closed=False
    def settimeout(self,t): pass
    def setsockopt(self,*a): pass
    def connect(self,a): pass
    def close(self): self.closed=True
    def sendall(self,d): self.sent.append(d)
    def recv(self,n):
        r=self.recvs.pop(0)
        if isinstance(r, BaseException): raise r
        return r
def client(recvs, cls=Client, **kw):
    c = cls(("h",1), **kw); s = S(recvs)
    if cls is Client: c.sock = s
    else: c.client_pool._obj_creator_orig = None
    return c, s

# 1 keys
show("C20 key b' '", lambda: check_key_helper(b" ", False))
show("C20 key b''", lambda: check_key_helper(b"", False))
show("C20 key b'\\t\\n'", lambda: check_key_helper(b"\t\n", False))
c, s = client([b"END\r\n"]); show("C02 get(' ')", lambda: (c.get(" "), s.sent))
# 2 readsegment
class RS:
    def __init__(self, ch): self.ch=list(ch)
    def recv(self,n): return self.ch.pop(0) if self.ch else b""
show("C03 readsegment split", lambda: _readsegment(RS([b"abc", b"def\r\n"]), b"", b"\r\n"))
show("C03 readsegment token straddles", lambda: _readsegment(RS([b"abc\r", b"\ndef"]), b"", b"\r\n"))
# 3 connect fallback
class SM:
    AF_UNSPEC=0; SOCK_STREAM=1; IPPROTO_TCP=6; TCP_NODELAY=1; AF_UNIX=1
    def __init__(self): self.socks=[]; self.n=0
    def getaddrinfo(self,*a): return [(10,1,6,"",("::1",1,0,0)),(2,1,6,"",("127.0.0.1",1))]
    def socket(self, fam, *a):
        self.n+=1
        if self.n==1: raise OSError("address family not supported")
        s=S([b"END\r\n"]); self.socks.append(s); return s
sm=SM(); c=Client(("localhost",1), socket_module=sm)
show("C06 fallback to 2nd addr", lambda: c.get("k")); print("   leaked open sockets:", [not s.closed for s in sm.socks])
# 4 one-shot iterator
c, s = client([b"VALUE a 0 1\r\nx\r\nEND\r\n"]); show("C04 get_many(iter)", lambda: c.get_many(iter(["a"])))
c, s = client([b"VALUE a 0 1\r\nx\r\nEND\r\n"]); show("C04 get_many(list)", lambda: c.get_many(["a"]))
# 5 ignore_exc shapes
class FailSM(SM):
    def getaddrinfo(self,*a): raise OSError("no route")
for cls in (Client, PooledClient):
    c = cls(("h",1), socket_module=FailSM(), ignore_exc=True)
    show(f"C07 {cls.__name__}.gets", lambda: c.gets("k"))
    show(f"C07 {cls.__name__}.gats", lambda: c.gats("k", 0))
    if cls is Client: show(f"C07 {cls.__name__}.gats defaults", lambda: c.gats("k", 0, default=1, cas_default=2))
hc = HashClient([("h",1)], socket_module=FailSM(), ignore_exc=True)
show("C07 HashClient.gets", lambda: hc.gets("k")); show("C07 HashClient.gats", lambda: hc.gats("k", 0))
hc = HashClient([("h",1)], socket_module=FailSM(), ignore_exc=True); show("C07 HashClient.get_many", lambda: hc.get_many(["k"]))
# 6 BaseException
c, s = client([KeyboardInterrupt(), b"STORED\r\n"]);
show("C10 set interrupted", lambda: c.set("a", b"1", noreply=False)); show("C10 then set b", lambda: (c.set("b", b"2", noreply=False), s.closed, s.sent))
# 7 compressed int
show("C15 compressed big int", lambda: serde.CompressedSerde(min_compress_len=5).serialize("k", 12345678))
# 8 encoding forwarded?
pc = PooledClient(("h",1), encoding="utf8"); show("C16 pooled inner encoding", lambda: pc._create_client().encoding)
# 10 fallback gets
class Miss:
    def gets(self, k): return (None, None)
class Hit:
    def gets(self, k): return (b"v", b"1")
show("C18 fallback gets (Client miss contract)", lambda: FallbackClient([Miss(), Hit()]).gets("k"))
