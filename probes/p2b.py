from pymemcache.client.base import _readline, _readvalue, _readsegment
from pymemcache.exceptions import MemcacheUnexpectedCloseError
from p2 import FakeSock, run_line

def h_readline2(stream: bytes, c1: int, c2: int) -> bool:
    """
    pre: len(stream) <= 8
    pre: 0 <= c1 <= c2 <= len(stream)
    post: _
    """
    whole = run_line([stream])
    split = run_line([stream[:c1], stream[c1:c2], stream[c2:]])
    if whole[0] != split[0]:
        return False
    if whole[0] == "closed":
        return True
    return whole[1] == split[1]

def run_val(chunks, size):
    s = FakeSock(chunks)
    try:
        buf, val = _readvalue(s, b"", size)
        rest = buf
        while s.i < len(s.chunks):
            rest = rest + s.chunks[s.i]
            s.i += 1
        return ("ok", val, rest)
    except MemcacheUnexpectedCloseError:
        return ("closed",)

def h_readvalue(stream: bytes, size: int, c1: int, c2: int) -> bool:
    """
    pre: len(stream) <= 7
    pre: 0 <= size <= 5
    pre: 0 <= c1 <= c2 <= len(stream)
    post: _
    """
    whole = run_val([stream], size)
    split = run_val([stream[:c1], stream[c1:c2], stream[c2:]], size)
    if whole[0] != split[0]:
        return False
    if whole[0] == "closed":
        return True
    # spec: value is exactly the first `size` bytes, residue is what follows the 2 terminator bytes
    return whole[1] == split[1] and whole[1] == stream[:size] and whole[2] == split[2] and whole[2] == stream[size+2:]
