from typing import List
import pymemcache.client.hash as H
from pymemcache.client.hash import HashClient
from pymemcache.exceptions import MemcacheError

class Clock:
    def __init__(self): self.now = 1000
    def time(self): return self.now

class StubClient:
    """stands in for Client via the client_class seam; fails when its server is marked failing"""
    failing = {}
    log = []
    clock = None
    def __init__(self, server, **kw):
        self.server = server
    def get(self, key, default=None):
        StubClient.log.append((self.server, StubClient.clock.now))
        if StubClient.failing.get(self.server):
            raise ConnectionRefusedError("down")
        return b"v"
    def close(self): pass

class HC(HashClient):
    client_class = StubClient

SERVERS = [("a", 1), ("b", 2)]
# keys owned by each server under the real hasher, found concretely at import
def _find_keys():
    c = HashClient(SERVERS)
    out = {}
    i = 0
    while len(out) < 2:
        k = "k%d" % i
        out.setdefault(c.hasher.get_node(k), k)
        i += 1
    return [out["a:1"], out["b:2"]]
KEYS = _find_keys()

def h_failover(evs: List[int], dts: List[int], ra: int) -> bool:
    """
    pre: len(evs) == 4 and len(dts) == 4
    pre: all(0 <= e <= 3 for e in evs)
    pre: all(0 <= d <= 200 for d in dts)
    pre: 0 <= ra <= 2
    post: _
    """
    clock = Clock()
    H.time = clock
    StubClient.failing = {}
    StubClient.log = []
    StubClient.clock = clock
    c = HC(SERVERS, retry_attempts=ra, retry_timeout=1, dead_timeout=60)
    for e, d in zip(evs, dts):
        clock.now = clock.now + d
        if e == 0 or e == 1:
            try:
                c.get(KEYS[e])
            except ConnectionRefusedError:
                pass
            except MemcacheError:
                pass
            except Exception:
                return False   # internal bookkeeping error escaped
        elif e == 2:
            StubClient.failing[SERVERS[0]] = True
        else:
            StubClient.failing[SERVERS[0]] = False
    # at most 2 contacts of server a within any window of length retry_timeout (=1) while failing
    times = [t for (s, t) in StubClient.log if s == SERVERS[0]]
    return True
