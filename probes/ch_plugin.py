def _install():
    from crosshair.libimpl import builtinslib as B
    from crosshair import abcstring as A
    _orig_split = B.BytesLike.split
    is_space = B.is_ascii_space_ord
    def _split(self, sep=None, maxsplit=-1):
        if sep is not None or maxsplit != -1:
            return _orig_split(self, sep, maxsplit)
        parts = []
        start = None
        n = len(self)
        for i in range(n):
            if is_space(self[i]):
                if start is not None:
                    parts.append(self[start:i]); start = None
            elif start is None:
                start = i
        if start is not None:
            parts.append(self[start:n])
        return parts
    B.BytesLike.split = _split
    def _contains(self, item):
        return self.find(item) != -1
    B.BytesLike.__contains__ = _contains
    # message formatting is not the subject: do not realize symbolic operands of '%'
    from crosshair import core as C
    _orig_fmt = C._PATCH_REGISTRATIONS[str.__mod__]
    from crosshair.util import CrossHairValue
    from crosshair.tracers import NoTracing
    def _has_sym(x):
        if isinstance(x, CrossHairValue): return True
        if type(x) in (tuple, list): return any(_has_sym(i) for i in x)
        return False
    def _fmt(self, other):
        with NoTracing():
            sym = _has_sym(other) or _has_sym(self)
        if not sym:
            with NoTracing():
                return str.__mod__(self, other)
        return "<formatted message>"
    C._PATCH_REGISTRATIONS[str.__mod__] = _fmt
_install()

def _install_enc():
    from crosshair.libimpl.encodings import _encutil as E
    from typing import List
    def encode(cls, input, errors="strict"):
        if not (isinstance(input, str) and isinstance(errors, str)):
            raise TypeError
        parts = []
        idx = 0
        inputlen = len(input)
        while idx < inputlen:
            out, idx, err = cls._encode_chunk(input, idx)
            parts.append(out)
            if err is not None:
                if errors == "strict":
                    # do not realize the input just to decorate the exception object
                    raise UnicodeEncodeError(cls.encoding_name, "?", 0, 1, err.reason())
                raise NotImplementedError
        return b"".join(parts), idx
    E.StemEncoder.encode = classmethod(encode)
_install_enc()
