from typing import List
import os
import pymemcache.client.hash as H
from pymemcache.client.hash import HashClient
from pymemcache.exceptions import MemcacheError
from p7 import Clock, KEYS, SERVERS

DEPTH = int(os.environ.get("DEPTH", "5"))
RA = int(os.environ.get("RA", "1"))

class Stub:
    failing = {}; log = []; clock = None
    def __init__(self, server, **kw): self.server = server
    def get(self, key, default=None):
        Stub.log.append((self.server, Stub.clock.now, bool(Stub.failing.get(self.server))))
        if Stub.failing.get(self.server):
            raise ConnectionRefusedError("down")
        return b"v"
    def close(self): pass

class HC(HashClient):
    client_class = Stub

def h(evs: List[int], dts: List[int], rt: int, dt: int) -> bool:
    """
    pre: len(evs) == DEPTH and len(dts) == DEPTH
    pre: all(0 <= e <= 3 for e in evs)
    pre: all(0 <= d <= 500 for d in dts)
    pre: 1 <= rt < dt <= 100
    post: _
    """
    clock = Clock(); H.time = clock
    Stub.failing = {}; Stub.log = []; Stub.clock = clock
    c = HC(SERVERS, retry_attempts=RA, retry_timeout=rt, dead_timeout=dt)
    a = SERVERS[0]
    for e, d in zip(evs, dts):
        clock.now = clock.now + d
        if e <= 1:
            try:
                r = c.get(KEYS[e])
            except ConnectionRefusedError:
                pass
            except MemcacheError:
                pass
            except Exception:
                return False           # internal bookkeeping error escaped
        elif e == 2:
            Stub.failing[a] = True
        else:
            Stub.failing[a] = False
    # contacts of server a that failed, as one episode (no success in between)
    ep = []
    for (s, t, failed) in Stub.log:
        if s != a: continue
        if failed: ep.append(t)
        else: ep = []
        if len(ep) >= 3 and not (ep[-1] - ep[-3] > rt - 1 + 0):   # 3 contacts inside a window of length rt
            if ep[-1] - ep[-3] < rt: return False
        if len(ep) >= RA + 3 and ep[-1] - ep[-(RA + 3)] < dt: return False
    return True
