from pymemcache.client.base import check_key_helper
from pymemcache.exceptions import MemcacheIllegalInputError

WS = (32, 9, 10, 13, 11, 12)
N = [0]
def spec_legal(k: bytes) -> bool:
    if len(k) > 250:
        return False
    for c in k:
        if c in WS or c == 0:
            return False
    return True

def all_ws(k: bytes) -> bool:
    for c in k:
        if c not in WS:
            return False
    return True

def h_bytes(key: bytes, prefix: bytes) -> bool:
    """
    pre: len(key) <= 3 and len(prefix) <= 2
    pre: len(prefix) + len(key) > 0
    pre: not all_ws(prefix + key)
    post: _
    """
    N[0] += 1
    full = prefix + key
    try:
        out = check_key_helper(key, False, prefix)
    except MemcacheIllegalInputError:
        return not spec_legal(full)
    return spec_legal(full) and out == full

def h_str(key: str, prefix: bytes, uni: bool) -> bool:
    """
    pre: len(key) <= 2 and len(prefix) <= 1
    post: _
    """
    try:
        out = check_key_helper(key, uni, prefix)
    except MemcacheIllegalInputError:
        return True
    return True
