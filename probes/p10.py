# Probe: interleavings as a symbolic schedule vector over generator-instrumented pool code.
# (hand-instrumented here; the real machinery would derive this from pool.py's AST at run time)
from typing import List
import collections

class Pool:
    def __init__(self, max_size, locked_release=True):
        self.used = collections.deque(); self.free = collections.deque()
        self.owner = None; self.max_size = max_size; self.created = 0
        self.locked_release = locked_release
    def acquire(self, tid):
        while self.owner is not None:
            yield "blocked"
        self.owner = tid
        yield "acq"
    def unlock(self): self.owner = None
    def get(self, tid, out):
        yield from self.acquire(tid)
        if self.free:
            obj = self.free.popleft()
        else:
            n = len(self.used); yield "len"
            if n >= self.max_size:
                self.unlock(); raise RuntimeError("too many")
            self.created += 1; obj = ["obj%d" % self.created, None]; yield "create"
        self.used.append(obj); yield "append"
        self.unlock(); out.append(obj); yield "unlock"
    def release(self, tid, obj):
        if self.locked_release:
            yield from self.acquire(tid)
        self.used.remove(obj); yield "remove"
        self.free.append(obj); yield "freeappend"
        if self.locked_release:
            self.unlock(); yield "unlock"

def worker(pool, tid, bad):
    out = []
    try:
        yield from pool.get(tid, out)
    except RuntimeError:
        return
    obj = out[0]
    obj[1] = tid; yield "use1"
    if obj[1] != tid: bad.append("shared")
    yield "use2"
    obj[1] = None
    yield from pool.release(tid, obj)

def run(sched, nthreads, locked_release):
    pool = Pool(2, locked_release); bad = []
    gens = [worker(pool, t, bad) for t in range(nthreads)]
    alive = [True] * nthreads
    for choice in sched:
        t = choice
        if not alive[t]:
            continue
        try:
            next(gens[t])
        except StopIteration:
            alive[t] = False
    # drain deterministically
    for t in range(nthreads):
        while alive[t]:
            try:
                r = next(gens[t])
                if r == "blocked": bad.append("deadlock"); break
            except StopIteration:
                alive[t] = False
    if len(pool.free) + len(pool.used) > 2: bad.append("size")
    if len(set(id(o) for o in pool.free)) != len(pool.free): bad.append("dup")
    return bad

def h_sched(sched: List[int]) -> bool:
    """
    pre: len(sched) == 14
    pre: all(0 <= s <= 1 for s in sched)
    pre: sum([1 if sched[i] != sched[i+1] else 0 for i in range(13)]) <= 3
    post: _
    """
    return run(sched, 2, True) == []

def h_sched_mut(sched: List[int]) -> bool:
    """
    pre: len(sched) == 14
    pre: all(0 <= s <= 1 for s in sched)
    pre: sum([1 if sched[i] != sched[i+1] else 0 for i in range(13)]) <= 3
    post: _
    """
    return run(sched, 2, False) == []
