import sys, time
sys.path[:0] = ['/repo', '/tmp/probe']
import z3
import pymemcache.client.murmur3 as m3mod
from p4ref import ref_bv

class N:
    """lazy expression over non-negative Python ints; lowered to z3 on demand, k low bits at a time"""
    __slots__ = ("op", "a", "hi", "_memo")   # hi: static upper bound on bit length
    def __init__(self, op, a, hi): self.op, self.a, self.hi, self._memo = op, a, hi, {}
    @staticmethod
    def lift(x):
        if isinstance(x, N): return x
        assert isinstance(x, int) and x >= 0
        return N("const", (x,), x.bit_length())
    def __or__(s, o): o = N.lift(o); return N("or", (s, o), max(s.hi, o.hi))
    __ror__ = __or__
    def __xor__(s, o): o = N.lift(o); return N("xor", (s, o), max(s.hi, o.hi))
    __rxor__ = __xor__
    def __and__(s, o): o = N.lift(o); return N("and", (s, o), min(s.hi, o.hi))
    __rand__ = __and__
    def __add__(s, o): o = N.lift(o); return N("add", (s, o), max(s.hi, o.hi) + 1)
    __radd__ = __add__
    def __mul__(s, o): o = N.lift(o); return N("mul", (s, o), s.hi + o.hi)
    __rmul__ = __mul__
    def __lshift__(s, k): assert isinstance(k, int) and k >= 0; return N("shl", (s, k), s.hi + k)
    def __rshift__(s, k): assert isinstance(k, int) and k >= 0; return N("shr", (s, k), max(0, s.hi - k))
    def low(s, k):
        """z3 BV of width k equal to (value mod 2**k)"""
        if k in s._memo: return s._memo[k]
        op, a = s.op, s.a
        if k > s.hi:   # value < 2**hi: compute hi bits, zero extend
            r = z3.ZeroExt(k - s.hi, s.low(s.hi)) if s.hi > 0 else z3.BitVecVal(0, k)
        elif op == "const": r = z3.BitVecVal(a[0] & ((1 << k) - 1), k)
        elif op == "var":
            e, w = a; r = e if k == w else z3.Extract(k - 1, 0, e)
        elif op in ("or", "xor", "and", "add", "mul"):
            x, y = a[0].low(k), a[1].low(k)
            r = {"or": x | y, "xor": x ^ y, "and": x & y, "add": x + y, "mul": x * y}[op]
        elif op == "shl":
            x, sh = a
            r = z3.BitVecVal(0, k) if sh >= k else z3.Concat(x.low(k - sh), z3.BitVecVal(0, sh)) if sh > 0 else x.low(k)
        elif op == "shr":
            x, sh = a
            r = z3.Extract(k + sh - 1, sh, x.low(k + sh)) if sh > 0 else x.low(k)
        s._memo[k] = r
        return r

class Ch:
    def __init__(self, n): self.n = n
m3mod.ord = lambda c: c.n

def var(name, w): return N("var", (z3.BitVec(name, w), w), w)

for n in [0, 3, 4, 7, 8, 12, 16, 31, 32, 64]:
    bs = [z3.BitVec(f"b{i}", 8) for i in range(n)]
    seed = z3.BitVec("seed", 32)
    t0 = time.time()
    out = m3mod.murmur3_32([Ch(N("var", (b, 8), 8)) for b in bs], N("var", (seed, 32), 32))
    assert out.hi <= 32
    s = z3.Solver(); s.set("timeout", 120000)
    s.add(out.low(32) != ref_bv(bs, seed, n))
    r = s.check()
    print(n, r, "%.2fs" % (time.time() - t0), flush=True)

# wide code points in the 4th byte (un-masked ord << 24): any code point < 0x110000 still yields a 32-bit value
bs = [z3.BitVec(f"c{i}", 21) for i in range(4)]
out = m3mod.murmur3_32([Ch(N("var", (b, 21), 21)) for b in bs], N("var", (z3.BitVec("seed", 32), 32), 32))
print("wide hi:", out.hi)
