import os
from pymemcache.client.base import Client
from pymemcache.exceptions import MemcacheIllegalInputError

KL = int(os.environ.get("KL", "2")); VL = int(os.environ.get("VL", "2"))

class Captured(Exception): pass
class Net:
    AF_UNIX = 1; SOCK_STREAM = 1; AF_UNSPEC = 0; IPPROTO_TCP = 6; TCP_NODELAY = 1
    def __init__(self): self.sent = []; self.connects = 0
    def socket(self, *a): return Sock(self)
    def getaddrinfo(self, host, port, *a): return [(2, 1, 6, "", (host, port))]
class Sock:
    def __init__(self, net): self.net = net
    def settimeout(self, t): pass
    def setsockopt(self, *a): pass
    def connect(self, a): self.net.connects += 1
    def close(self): pass
    def sendall(self, d): self.net.sent.append(d); raise Captured()
    def recv(self, n): raise AssertionError

class Items:
    """Mapping stand-in that never hashes its keys"""
    def __init__(self, pairs): self.pairs = pairs
    def items(self): return list(self.pairs)

def legal_byte(c): return not (c == 0 or c == 32 or (9 <= c <= 13))
def all_ws(k):
    for c in k:
        if not (c == 32 or (9 <= c <= 13)): return False
    return True

def strict_store(wire, verb, key, flags, expire, value, noreply):
    eol = wire.find(b"\r\n")
    if eol < 0: return False
    want = verb + b" " + key + b" " + str(flags).encode() + b" " + str(expire).encode() + b" " + str(len(value)).encode() + (b" noreply" if noreply else b"") + b"\r\n" + value + b"\r\n"
    if wire != want: return False
    for c in key:
        if not legal_byte(c): return False
    return 1 <= len(key) <= 250

def h_store(key: bytes, value: bytes, pfx: bytes, flags: int, expire: int, noreply: bool) -> bool:
    """
    pre: len(key) == KL and len(value) == VL and len(pfx) <= 1
    pre: 0 <= flags < 2**32
    pre: -2**63 <= expire < 2**63
    pre: not all_ws(pfx + key)
    post: _
    """
    net = Net()
    c = Client(("h", 1), socket_module=net, key_prefix=pfx)
    try:
        c._store_cmd(b"set", Items([(key, value)]), expire, noreply, flags=flags)
    except MemcacheIllegalInputError:
        ok = True
        for ch in pfx + key:
            if not legal_byte(ch): ok = False
        return (not ok) and len(net.sent) == 0 and net.connects == 0
    except Captured:
        pass
    if len(net.sent) != 1: return False
    return strict_store(net.sent[0], b"set", pfx + key, flags, expire, value, noreply)

def h_delete(key: bytes, pfx: bytes, noreply: bool) -> bool:
    """
    pre: len(key) == KL and len(pfx) <= 1
    pre: not all_ws(pfx + key)
    post: _
    """
    net = Net()
    c = Client(("h", 1), socket_module=net, key_prefix=pfx)
    try:
        c.delete(key, noreply=noreply)
    except MemcacheIllegalInputError:
        ok = True
        for ch in pfx + key:
            if not legal_byte(ch): ok = False
        return (not ok) and len(net.sent) == 0 and net.connects == 0
    except Captured:
        pass
    if len(net.sent) != 1: return False
    full = pfx + key
    for ch in full:
        if not legal_byte(ch): return False
    return net.sent[0] == b"delete " + full + (b" noreply" if noreply else b"") + b"\r\n"
