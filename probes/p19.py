"""Engine B on source-level mutants of murmur3_32 (exec'd from modified text; /repo untouched)."""
import sys, time, io, contextlib
sys.path[:0] = ['/repo', '/verif/probes']
import z3
with contextlib.redirect_stdout(io.StringIO()):
    import p5
from p5 import N, Ch
from p4ref import ref_bv
from p3 import ref as pyref
SRC = open('/repo/pymemcache/client/murmur3.py').read()
MUTS = {
  "clean": lambda s: s,
  "rot15->16": lambda s: s.replace("(k1 << 15) | ((k1 & 0xFFFFFFFF) >> 17)", "(k1 << 16) | ((k1 & 0xFFFFFFFF) >> 16)", 1),
  "drop mask before >>19": lambda s: s.replace("((h1 & 0xFFFFFFFF) >> 19)", "(h1 >> 19)"),
  "tail [1,2,3]->[1,3]": lambda s: s.replace("if val in [1, 2, 3]:", "if val in [1, 3]:"),
  "h1*5->h1*4": lambda s: s.replace("h1 = h1 * 5 + 0xE6546B64", "h1 = h1 * 4 + 0xE6546B64"),
  "drop &0xFF (benign)": lambda s: s.replace("(ord(data[i + 1]) & 0xFF)", "ord(data[i + 1])"),
}
for name, m in MUTS.items():
    src = m(SRC); assert name == "clean" or src != SRC, name
    ns = {"ord": lambda c: c.n}; exec(compile(src, "murmur3-mut", "exec"), ns)
    fsym = ns["murmur3_32"]
    ns2 = {}; exec(compile(src, "murmur3-mut", "exec"), ns2); fconc = ns2["murmur3_32"]
    found = None; t0 = time.time()
    for n in range(0, 13):
        bs = [z3.BitVec(f"b{i}", 8) for i in range(n)]; seed = z3.BitVec("seed", 32)
        out = fsym([Ch(N("var", (b, 8), 8)) for b in bs], N("var", (seed, 32), 32))
        s = z3.Solver(); s.set("timeout", 60000); s.add(out.low(max(out.hi, 32)) != z3.ZeroExt(max(out.hi, 32) - 32, ref_bv(bs, seed, n)))
        r = s.check()
        if str(r) == "sat":
            mdl = s.model(); data = bytes(mdl.eval(b, model_completion=True).as_long() for b in bs); sd = mdl.eval(seed, model_completion=True).as_long()
            got, want = fconc(data.decode("latin1"), sd), pyref(data, sd)
            found = (n, data, sd, hex(got), hex(want), "REPLAYS" if got != want else "does NOT replay"); break
        if str(r) != "unsat": found = (n, "solver said", str(r)); break
    print(f"{name:28s} -> {found if found else 'unsat for lengths 0..12'}  ({time.time()-t0:.1f}s)", flush=True)
