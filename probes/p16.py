from pymemcache.client.base import check_key_helper
from pymemcache.exceptions import MemcacheIllegalInputError
def legal_byte(c): return not (c == 0 or c == 32 or 9 <= c <= 13)
def h_str(key: str, uni: bool) -> bool:
    """
    pre: 1 <= len(key) <= 2
    pre: all(not (0xD800 <= ord(ch) <= 0xDFFF) for ch in key)
    pre: not all(ord(ch) < 128 and not legal_byte(ord(ch)) for ch in key)
    post: _
    """
    ascii_only = all(ord(ch) < 128 for ch in key)
    ok_chars = all(ord(ch) >= 128 or legal_byte(ord(ch)) for ch in key)
    try:
        out = check_key_helper(key, uni, b"")
    except MemcacheIllegalInputError:
        return not (ok_chars and (ascii_only or uni))
    return ok_chars and (ascii_only or uni)
