import sys; sys.path.insert(0, "/repo")
from unittest.mock import patch
from pymemcache.client.ext.aws_ec_client import AWSElastiCacheHashClient
from pymemcache.client.base import Client
def cfg(nodes): return b"CONFIG cluster 0 %d\r\n3\n" % 0 + b" ".join(b"%s|%s|11211" % (h.encode(), ip.encode()) for h, ip in nodes)
two = [("n1.cache.amazonaws.com","10.0.0.1"),("n2.cache.amazonaws.com","10.0.0.2")]
one = two[:1]
replies = [cfg(two), cfg(one)]
with patch.object(Client, "raw_command", side_effect=lambda *a, **k: replies.pop(0)):
    c = AWSElastiCacheHashClient("cluster.abc.cfg.use1.cache.amazonaws.com:11211")
    print("after ctor   clients:", sorted(c.clients), "hasher:", sorted(c.hasher.nodes))
    c.reconfigure_nodes()
    print("after scale-down clients:", sorted(c.clients), "hasher:", sorted(c.hasher.nodes))
    bad = 0
    for i in range(50):
        try: c._get_client("key%d" % i)
        except KeyError as e: bad += 1
    print("keys raising KeyError after scale-down:", bad, "/ 50")
# ERROR reply through the real reader
class S:
    def __init__(self, recvs): self.recvs = list(recvs)
    def settimeout(self,t): pass
    def setsockopt(self,*a): pass
    def connect(self,a): pass
    def close(self): pass
    def sendall(self,d): pass
    def recv(self,n): return self.recvs.pop(0) if self.recvs else b""
class SM:
    AF_UNSPEC=0; SOCK_STREAM=1; IPPROTO_TCP=6; TCP_NODELAY=1; AF_UNIX=1
    def __init__(self, recvs): self.recvs = recvs
    def getaddrinfo(self,h,p,*a): return [(2,1,6,"",(h,p))]
    def socket(self,*a): return S(self.recvs)
for name, recvs in [("ERROR", [b"ERROR\r\n"]), ("whole", [cfg(two) + b"\n\r\nEND\r\n"]), ("split", [cfg(two)[:30], cfg(two)[30:] + b"\n\r\nEND\r\n"])]:
    try:
        c = AWSElastiCacheHashClient("cluster.abc.cfg.use1.cache.amazonaws.com:11211", socket_module=SM(recvs))
        print(name, "->", sorted(c.hasher.nodes))
    except BaseException as e:
        print(name, "-> raised", type(e).__name__, e)
