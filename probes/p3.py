from pymemcache.client.murmur3 import murmur3_32

M = 0xFFFFFFFF
def rotl(x, r):
    return ((x << r) | (x >> (32 - r))) & M

def ref(data: bytes, seed: int) -> int:
    c1, c2 = 0xCC9E2D51, 0x1B873593
    h = seed & M
    n = len(data)
    nb = n // 4
    for b in range(nb):
        k = data[4*b] | (data[4*b+1] << 8) | (data[4*b+2] << 16) | (data[4*b+3] << 24)
        k = (k * c1) & M; k = rotl(k, 15); k = (k * c2) & M
        h ^= k; h = rotl(h, 13); h = (h * 5 + 0xE6546B64) & M
    t = data[4*nb:]
    k = 0
    if len(t) >= 3: k ^= t[2] << 16
    if len(t) >= 2: k ^= t[1] << 8
    if len(t) >= 1:
        k ^= t[0]
        k = (k * c1) & M; k = rotl(k, 15); k = (k * c2) & M
        h ^= k
    h ^= n
    h ^= h >> 16; h = (h * 0x85EBCA6B) & M
    h ^= h >> 13; h = (h * 0xC2B2AE35) & M
    h ^= h >> 16
    return h

def h_m3(a: int, b: int, seed: int) -> bool:
    """
    pre: 0 <= a < 256 and 0 <= b < 256
    pre: 0 <= seed < 2**32
    post: _
    """
    s = chr(a) + chr(b)
    return murmur3_32(s, seed) == ref(bytes([a, b]), seed)
