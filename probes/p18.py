# Probe C12: HashClient with a hasher whose placement is a symbolic assignment
from typing import List
from pymemcache.client.hash import HashClient

SERVERS = [("a", 1), ("b", 2), "/tmp/sock"]
NODE = ["a:1", "b:2", "/tmp/sock"]
CORPUS = ["k0", b"k1", ("route", "k2"), "k3", b"k4"]

class Rec:
    log = []
    def __init__(self, server, **kw): self.server = server
    def get(self, key, default=None):
        Rec.log.append((self.server, "get", key)); return ("v", key)
    def get_many(self, keys):
        for k in keys: Rec.log.append((self.server, "get", k))
        return {k: ("v", k) for k in keys}
    def set_many(self, values, *a, **k):
        for key in values: Rec.log.append((self.server, "set", key))
        return []
    def set(self, key, value, *a, **k):
        Rec.log.append((self.server, "set", key)); return True

ASSIGN = [0]
class SymHasher:
    def __init__(self): self.nodes = []
    def add_node(self, n): self.nodes.append(n)
    def remove_node(self, n): self.nodes.remove(n)
    def get_node(self, key):
        return NODE[ASSIGN[0][ROUTE.index(key)]]
ROUTE = ["k0", b"k1", "route", "k3", b"k4"]

class HC(HashClient):
    client_class = Rec

def h(assign: List[int], mask: int) -> bool:
    """
    pre: len(assign) == 5 and all(0 <= a <= 2 for a in assign)
    pre: 0 <= mask < 32
    post: _
    """
    ASSIGN[0] = assign
    c = HC(SERVERS, hasher=SymHasher)
    keys = [CORPUS[i] for i in range(5) if mask >> i & 1]
    Rec.log = []
    many = c.get_many(keys)
    batch = sorted((NODE.index(c._make_client_key(s)), str(k)) for (s, op, k) in Rec.log)
    Rec.log = []
    single = {}
    for k in keys:
        single[k[1] if isinstance(k, tuple) else k] = c.get(k)
    per = sorted((NODE.index(c._make_client_key(s)), str(k)) for (s, op, k) in Rec.log)
    want = sorted((assign[i], str(CORPUS[i][1] if isinstance(CORPUS[i], tuple) else CORPUS[i])) for i in range(5) if mask >> i & 1)
    return batch == per == want and many == single
