from pymemcache.client.base import _readline, _readvalue, _readsegment
from pymemcache.exceptions import MemcacheUnexpectedCloseError

class FakeSock:
    def __init__(self, chunks):
        self.chunks = [c for c in chunks if len(c) > 0]
        self.i = 0
    def recv(self, n):
        if self.i >= len(self.chunks):
            return b""
        c = self.chunks[self.i]
        self.i += 1
        return c

def run_line(chunks):
    try:
        buf, line = _readline(FakeSock(chunks), b"")
        return ("ok", line, buf)
    except MemcacheUnexpectedCloseError:
        return ("closed",)

def h_readline(stream: bytes, cut: int) -> bool:
    """
    pre: len(stream) <= 5
    pre: 0 <= cut <= len(stream)
    post: _
    """
    whole = run_line([stream])
    split = run_line([stream[:cut], stream[cut:]])
    if whole[0] != split[0]:
        return False
    if whole[0] == "closed":
        return True
    # remaining buffer may differ in where it sits (buf vs unread chunks); compare line only + total residue
    return whole[1] == split[1]

def run_seg(chunks, tok):
    try:
        buf, line = _readsegment(FakeSock(chunks), b"", tok)
        return ("ok", line, buf)
    except MemcacheUnexpectedCloseError:
        return ("closed",)

def h_readsegment(stream: bytes, cut: int) -> bool:
    """
    pre: len(stream) <= 5
    pre: 0 <= cut <= len(stream)
    post: _
    """
    whole = run_seg([stream], b"\r\n")
    split = run_seg([stream[:cut], stream[cut:]], b"\r\n")
    if whole[0] != split[0]:
        return False
    if whole[0] == "closed":
        return True
    return whole[1] == split[1]
