from p10 import Pool, worker

def run2(first, pts, tos, nthreads, locked_release):
    """threads run without interruption except at the (symbolic) preemption points pts[j] (global step numbers),
    where control moves to thread tos[j]; a blocked or finished thread yields to the next runnable one."""
    pool = Pool(2, locked_release); bad = []
    gens = [worker(pool, t, bad) for t in range(nthreads)]
    alive = [True] * nthreads
    cur = first; step = 0; j = 0; spins = 0
    while any(alive):
        if j < len(pts) and step == pts[j]:
            cur = tos[j]; j += 1
        if not alive[cur]:
            cur = (cur + 1) % nthreads; continue
        try:
            r = next(gens[cur])
        except StopIteration:
            alive[cur] = False; continue
        step += 1
        if r == "blocked":
            spins += 1
            if spins > 2 * nthreads: bad.append("deadlock"); break
            cur = (cur + 1) % nthreads
        else:
            spins = 0
    if len(pool.free) + len(pool.used) > 2: bad.append("size")
    return bad

def h_ok(first: int, p1: int, p2: int, p3: int, t1: int, t2: int, t3: int) -> bool:
    """
    pre: 0 <= first <= 1 and 0 <= t1 <= 1 and 0 <= t2 <= 1 and 0 <= t3 <= 1
    pre: 0 <= p1 < p2 < p3 <= 20
    post: _
    """
    return run2(first, [p1, p2, p3], [t1, t2, t3], 2, True) == []

def h_mut(first: int, p1: int, p2: int, p3: int, t1: int, t2: int, t3: int) -> bool:
    """
    pre: 0 <= first <= 1 and 0 <= t1 <= 1 and 0 <= t2 <= 1 and 0 <= t3 <= 1
    pre: 0 <= p1 < p2 < p3 <= 20
    post: _
    """
    return run2(first, [p1, p2, p3], [t1, t2, t3], 2, False) == []
