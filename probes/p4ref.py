import z3
def ref_bv(bs, seed, n):
    M = lambda v: z3.BitVecVal(v, 32)
    rotl = lambda x, r: z3.RotateLeft(x, r)
    z = lambda b: z3.ZeroExt(24, b)
    h = seed
    nb = n // 4
    for b in range(nb):
        k = z(bs[4*b]) | (z(bs[4*b+1]) << 8) | (z(bs[4*b+2]) << 16) | (z(bs[4*b+3]) << 24)
        k = k * M(0xCC9E2D51); k = rotl(k, 15); k = k * M(0x1B873593)
        h = h ^ k; h = rotl(h, 13); h = h * M(5) + M(0xE6546B64)
    t = bs[4*nb:]
    k = M(0)
    if len(t) >= 3: k = k ^ (z(t[2]) << 16)
    if len(t) >= 2: k = k ^ (z(t[1]) << 8)
    if len(t) >= 1:
        k = k ^ z(t[0]); k = k * M(0xCC9E2D51); k = rotl(k, 15); k = k * M(0x1B873593); h = h ^ k
    h = h ^ M(n)
    h = h ^ z3.LShR(h, 16); h = h * M(0x85EBCA6B)
    h = h ^ z3.LShR(h, 13); h = h * M(0xC2B2AE35)
    h = h ^ z3.LShR(h, 16)
    return h

