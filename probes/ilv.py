"""Prototype: rewrite pymemcache.pool.ObjectPool (parsed from /repo at run time) into generator form."""
import ast, inspect, textwrap, collections, contextlib, threading, time
import pymemcache.pool as P

METHODS = {"get", "release", "destroy", "clear", "get_and_release"}

class Rewriter(ast.NodeTransformer):
    def __init__(self): self.in_method = None
    def visit_FunctionDef(self, node):
        if node.name not in METHODS:
            return node
        self.in_method = node.name
        node.decorator_list = []             # contextmanager protocol is emulated by the driver
        node.body = self._block(node.body)
        self.in_method = None
        # make sure it is a generator even if no yield was inserted
        node.body.insert(0, ast.parse("if False: yield").body[0])
        return node
    def _block(self, stmts):
        out = []
        for s in stmts:
            out.extend(self._stmt(s))
        return out
    def _stmt(self, s):
        if isinstance(s, ast.With) and any(self._is_lock(i.context_expr) for i in s.items):
            body = self._block(s.body)
            acquire = ast.parse("yield from __acquire__(self._lock)").body[0]
            tr = ast.Try(body=body or [ast.Pass()], handlers=[], orelse=[],
                         finalbody=ast.parse("self._lock.release()\nyield ('unlock',)").body)
            return [acquire, tr]
        for f in ("body", "orelse", "finalbody"):
            if hasattr(s, f) and isinstance(getattr(s, f), list) and getattr(s, f) and isinstance(getattr(s, f)[0], ast.stmt):
                setattr(s, f, self._block(getattr(s, f)))
        if isinstance(s, ast.Try):
            for h in s.handlers: h.body = self._block(h.body)
        s = self.generic_visit_calls(s)
        if isinstance(s, (ast.Expr, ast.Assign, ast.AugAssign, ast.AnnAssign)):
            if isinstance(s, ast.Expr) and isinstance(s.value, ast.Yield):
                # the context manager's own yield: mark it
                s.value = ast.Yield(value=ast.Tuple(elts=[ast.Constant("CTX"), s.value.value], ctx=ast.Load()))
                return [s]
            return [s, ast.parse("yield ('step', %d)" % s.lineno).body[0]]
        return [s]
    def _is_lock(self, e):
        return isinstance(e, ast.Attribute) and e.attr == "_lock"
    def generic_visit_calls(self, s):
        outer = self
        class C(ast.NodeTransformer):
            def visit_Call(self, n):
                self.generic_visit(n)
                if isinstance(n.func, ast.Attribute) and isinstance(n.func.value, ast.Name) and n.func.value.id == "self" and n.func.attr in METHODS:
                    return ast.YieldFrom(value=n)
                return n
        # only rewrite expressions, not nested statement lists (already handled)
        for field, val in ast.iter_fields(s):
            if isinstance(val, ast.expr):
                setattr(s, field, C().visit(val))
        return s

def __acquire__(lock):
    while not lock.acquire(False):
        yield ("blocked",)
    yield ("acq",)

def build():
    src = textwrap.dedent(inspect.getsource(P.ObjectPool))
    tree = ast.parse(src)
    cls = tree.body[0]
    Rewriter().visit(cls)
    ast.fix_missing_locations(tree)
    ns = dict(P.__dict__); ns["__acquire__"] = __acquire__
    code = compile(tree, "<ilv:pool.py>", "exec")
    exec(code, ns)
    return ns["ObjectPool"], ast.unparse(tree)

if __name__ == "__main__":
    cls, text = build()
    print(text[text.index("def get_and_release"):][:2600])
