#!/bin/bash
# usage: confirm_seed.sh <worktree> <mdir name e.g. m1> <prop id> <seed name>
# Confirms independently: patch applies, 488 tests pass with it, demo fails with it and passes without it.
# On success copies patch/demo/notes into /verif/seeded/<seed name>/ and writes meta.json.
set -u
WT=$1; M=$2; PROP=$3; NAME=$4
OUT=$WT/_out/$M
cd $WT || exit 2
git checkout -q -- . 
git apply --check $OUT/patch.diff || { echo "patch does not apply"; exit 2; }
PYTHONPATH=$WT /venv/bin/python $OUT/demo.py >/tmp/demo_clean.$$ 2>&1; rc_clean=$?
git apply $OUT/patch.diff
PYTHONPATH=$WT /venv/bin/python $OUT/demo.py >/tmp/demo_mut.$$ 2>&1; rc_mut=$?
tests=$(/venv/bin/python -m pytest -q -p no:cacheprovider --timeout=900 -q 2>&1 | grep -E "passed|failed" | tail -1)
git checkout -q -- .
echo "clean demo rc=$rc_clean ; mutated demo rc=$rc_mut ; tests: $tests"
if [ $rc_clean -eq 0 ] && [ $rc_mut -ne 0 ] && echo "$tests" | grep -q "488 passed" && ! echo "$tests" | grep -q failed; then
  D=/verif/seeded/$NAME; mkdir -p $D
  cp $OUT/patch.diff $D/patch.diff; cp $OUT/demo.py $D/demo.py; cp $OUT/notes.md $D/notes.md 2>/dev/null
  python3 - "$D" "$PROP" "$NAME" "$tests" "$(tail -3 /tmp/demo_mut.$$ | tr '\n' ' ' | cut -c1-400)" <<'PY'
import json, sys
d, prop, name, tests, demo = sys.argv[1:6]
json.dump({"name": name, "breaks_property": prop, "origin": "independent sub-agent given only the property text and a scratch worktree",
  "needs_to_manifest": open(d + "/notes.md").read()[:1500] if __import__("os").path.exists(d + "/notes.md") else "",
  "confirmed": {"patch_applies_on_base": True, "test_suite_with_patch": tests, "demo_without_patch_rc": 0, "demo_with_patch": demo},
  "base_commit": __import__("subprocess").check_output(["git", "-C", "/repo", "rev-parse", "--short", "HEAD"], text=True).strip(),
  "detected_by": None}, open(d + "/meta.json", "w"), indent=1)
PY
  echo "KEPT $NAME"
else
  echo "REJECTED $NAME"; tail -5 /tmp/demo_clean.$$ /tmp/demo_mut.$$
fi
rm -f /tmp/demo_clean.$$ /tmp/demo_mut.$$
