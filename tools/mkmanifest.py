#!/usr/bin/env python3
"""Regenerate /verif/MANIFEST.json from the table below (kept in one place so it is always valid)."""
import json
import os
import sys

HERE = os.path.dirname(os.path.dirname(os.path.abspath(__file__)))
PY = "/opt/veriftools/pyvenv/bin/python"

CH = "bounded symbolic execution of the real functions (CrossHair + z3), sharded; counterexamples replayed concretely"

CHECKS = {
    "C20": dict(
        text="Bounded symbolic execution of check_key_helper and the three class wrappers: within the stated bounds "
             "(all 256 values of every byte / every code point symbolic, lengths enumerated as shards) every path is "
             "explored and z3 decides each branch, so acceptance == the independent byte-value predicate for every key "
             "in the bound; a counterexample is a concrete key replayed on the real code.",
        note="Bounds: keys <= 3 (thorough 4) symbolic bytes x prefix <= 2; boundary totals 248..252 with 3 symbolic bytes; "
             "str keys <= 2 (3) symbolic code points. Trusted: z3, CrossHair's bytes/str/int models, vkit/ch_models.py "
             "(split/contains/%/encode models, differentially tested at setup).",
        design="3 (C20)", technique=CH),
}

CHECKS["C14"] = dict(
    engine="bvsym",
    text="The real murmur3_32 function object is executed on lazy unbounded-integer proxies (symbolic bytes, symbolic "
         "32-bit seed); for each length 0..48 one QF_BV query `low32(result) != MurmurHash3_x86_32(bytes, seed)` is "
         "discharged by z3: unsat means equality for every content and every seed of that length. A sat answer is a "
         "concrete (string, seed) replayed on the real function.",
    note="Bound: lengths 0..48 (longer strings: z3 unknown). Trusted: z3, the lowering identities of vkit/bvsym.py (proved at "
         "small width + differential at setup), the hand-written 32-bit reference (validated on 17 published vectors). "
         "If a change makes the code non-executable on the proxies the check falls back to CrossHair bug-hunting and "
         "otherwise reports inconclusive (exit 3).",
    design="1.2 and 3 (C14)", technique="symbolic execution of the real function on bit-vector proxies + SMT (z3 QF_BV) per length")

CHECKS["C17"] = dict(
    text="Bounded symbolic execution of RetryingClient.__init__/_retry/__getattr__ with a scripted inner client: "
         "attempts, every attempt's outcome and retry_delay are symbolic, the (retry_for, do_not_retry_for) subset pair "
         "is a shard; every path is compared with an independent specification of calls, sleeps and the identity of "
         "the returned value / re-raised exception. All shards exhaust, so within the bound the decision table is "
         "covered completely.",
    note="Bound: attempts <= 3 (thorough 5), 4-class hierarchy, 81 disjoint mask pairs, 3-4 spellings. `sleep` is rebound "
         "to a recorder. Trusted: z3, CrossHair int model, the 20-line specification in harness/C17.py.",
    design="3 (C17)", technique=CH)
CHECKS["C18"] = dict(
    text="Bounded symbolic execution of every FallbackClient method over 1..4 scripted caches: hit mask, operation and "
         "arguments symbolic; per-cache call logs and the result are compared with the first-hit / primary-only rule. "
         "All shards exhaust.",
    note="Bound: <= 4 caches following the Client miss contract (None, (None, None), {}). Trusted: z3, CrossHair models.",
    design="3 (C18)", technique=CH)

NETNOTE = ("Environment: vkit/net.py (socket_module stand-in, every reply byte tagged with the owning call), vkit/refserver.py "
           "(memcached model) and vkit/strict.py (strict request grammar), all validated at setup; server-level faults replace "
           "whole replies. Trusted: z3, CrossHair models, these stubs.")
CHECKS["C01"] = dict(
    text="Bounded symbolic execution of the real Client/PooledClient/HashClient call paths against a tagged-reply network "
         "model: noreply choices, fault position (every connect/sendall/recv of the history), fault kind, cut position and "
         "follow-up operation are symbolic; after every call the monitors require that no recv returned another call's "
         "bytes, none waited with nothing in flight, a noreply call never read, and no reply is left queued on a socket "
         "that stays open. All shards exhaust within the bound.",
    note="Bound: 2-call histories (thorough: 3), one fault, one cut, concrete 2-byte values. " + NETNOTE,
    design="3 (C01)", technique=CH)

CHECKS["C10"] = dict(
    text="Same symbolic driver and ownership monitors as C01, with the fault replaced by KeyboardInterrupt / SystemExit / a "
         "BaseException subclass raised from inside a symbolic socket call of the history; after each call no later call may "
         "read another call's bytes and every pool must have zero checked-out connections. All shards exhaust.",
    note="Bound: 2-call histories (3 with pool_idle_timeout), one interruption in any connect/sendall/recv/close, before or after the call took effect, 4 stacks x 7 first operations (thorough 6 x 16). " + NETNOTE,
    design="3 (C10)", technique=CH)

CHECKS["C07"] = dict(
    text="Bounded symbolic execution of every read method/call shape of Client, PooledClient and HashClient with "
         "ignore_exc=True under a symbolic fault (position, kind, cut), a raising deserializer, and with nothing listening "
         "(until eviction): the call must not raise and must return, value and type, what the same call expression returns "
         "on a healthy server without the key (computed in the same path); afterwards set+get must work. All shards exhaust.",
    note="Bound: one fault per call, int defaults (symbolic), 8 (thorough 12) call shapes x 3 (5) stacks. " + NETNOTE,
    design="3 (C07)", technique=CH)

CHECKS["C03"] = dict(
    text="Bounded symbolic execution of the real readers (_readline, _readvalue, _readsegment, _recv) on a symbolic stream "
         "(every byte value) with a symbolic carried buffer, every subset of cut positions and EINTR before any recv, compared "
         "with the one-piece run and with an independent find()/slice specification; and of 18 public-call scenarios whose "
         "reply carries a symbolic value, delivered with a symbolic cut / receive size 4 / EINTR, compared with the one-piece "
         "result. All shards exhaust.",
    note="Bound: streams <= 4 bytes + buffer <= 1 (thorough 6-8 + 2), values 0/2/3 bytes, one cut + receive size 4. " + NETNOTE,
    design="3 (C03)", technique=CH)

CHECKS["C06"] = dict(
    text="Bounded symbolic execution of _connect/close and the call paths of Client (also inside PooledClient/HashClient) "
         "against NetSim with two environment failures at symbolic occurrences over every socket-module call kind, symbolic "
         "error kind, symbolic and distinct connect/I-O timeouts: monitors bound the number of open sockets at every event, "
         "require every call that no failure struck to succeed, check the timeout in force at connect and at every "
         "sendall/recv, that TLS I/O goes through the wrapper, and that no socket stays open after close(). All shards exhaust.",
    note="Bound: 4-call history + close(), two failures, <= 2 (thorough 3) resolved addresses, integer timeouts and None. " + NETNOTE,
    design="3 (C06)", technique=CH)

CHECKS["C09"] = dict(
    text="Bounded symbolic execution of PooledClient + ObjectPool + Client over NetSim with a virtual pool clock: one faulty "
         "call (symbolic index, position, kind), symbolic idle gaps and pool_idle_timeout, symbolic ignore_exc; after every "
         "call: failed sockets closed and never reused, healthy ones reused unless idle longer than the timeout (then closed), "
         "zero checked-out connections, no 'Too many objects'. Plus every pruned 6-action sequence of get/release/destroy/"
         "clock-advance on the real ObjectPool with up to 3 objects out, against the never-hand-out-closed-or-expired "
         "invariant. All shards exhaust.",
    note="Bound: 3-call histories over get/set/get_many/delete_many/incr/touch/quit, one faulty call, pool sequences of 6 (thorough 7) actions. " + NETNOTE,
    design="3 (C09)", technique=CH)

CHECKS["C02"] = dict(
    text="Bounded symbolic execution of the request-building paths. Where the key is not hashed (delete, delete_many, incr, "
         "decr, touch, _store_cmd for the six verbs through a non-hashing Mapping) key, prefix and value bytes are fully "
         "symbolic and the bytes handed to sendall() must equal the independently built canonical command, or the call must "
         "raise MemcacheIllegalInputError with nothing connected or sent. At the dict-building sites keys are "
         "solver-enumerated over a 12-class alphabet and the wire is parsed by an independent strict memcached grammar; "
         "multi-key calls (also 900 KB / 6000-key ones) must send nothing when one member is illegal. Integer arguments: "
         "symbolic 0..99, protocol boundaries, non-integers rejected. All shards exhaust.",
    note="Bound: keys <= 2 (3) symbolic bytes, prefix <= 1 (2), bytes values <= 3 (4), str values <= 2 (3) code points under 3 encodings; 12-class alphabet at hashing sites. The strict "
         "grammar and its builder are validated at setup. Trusted: z3, CrossHair bytes/int models, vkit/strict.py.",
    design="3 (C02)", technique=CH)

CHECKS["C04"] = dict(
    text="Bounded symbolic execution of real store->fetch round trips against the memcached model with the value bytes "
         "symbolic (every content, lengths 0..5, thorough 8), a symbolic reply cut and receive sizes 4096 and 4: the fetched "
         "value must equal the stored one; the request must be the placeholder request with the value substituted. Key "
         "remapping (caller's key objects, prefix on the wire only, str/bytes twins, 6 collection kinds incl. one-shot "
         "iterators) and serializer round trips (pickle protocols 0..5, compressed, no serde) are solver-enumerated over "
         "representative corpora. All shards exhaust.",
    note="Pickle/zlib/bz2 are C code (values realized: representatives, not all values). The server model runs untraced on a "
         "placeholder; symbolic bytes are checked in the request and spliced into the reply. " + NETNOTE,
    design="3 (C04)", technique=CH)

CHECKS["C15"] = dict(
    text="Bounded symbolic execution of the serializers: exact-type dispatch, flag words, transmissible form and type-exact "
         "round trip for symbolic bytes/str/small int/bool/None; CompressedSerde's threshold rule, COMPRESSED-flag <=> "
         "codec-output-stored, never-larger-than-uncompressed and round trip with a stub codec whose output bytes and length "
         "are symbolic; real pickle protocols 0..5 and zlib/bz2/lzma/identity on 34 solver-enumerated representatives "
         "(huge ints, subclasses, nested containers). All shards exhaust.",
    note="Pickle and the codecs are C code and reject symbolic proxies: for values routed to them the check is solver-chosen "
         "enumeration, not an all-values claim. Trusted: z3, CrossHair models of bytes/str/int.",
    design="3 (C15)", technique=CH)

CHECKS["C16"] = dict(
    text="Differential bounded symbolic execution: operation, call shape (positional/keyword, noreply omitted or explicit), "
         "noreply, server state and argument preset are symbolic indices; the same call expression runs on Client and on "
         "PooledClient / HashClient(1 server, pooled or not) / RetryingClient(Client), each against its own memcached model; "
         "parsed command streams, result (value and type) or exception class, and socket timeouts must agree. The "
         "configuration (prefix, default_noreply, encoding, serde, timeouts) is the shard. All shards exhaust.",
    note="Everything is concrete once the indices are chosen, so the solver's role is complete enumeration of the index space "
         "(20 operation groups x <=4 shapes x 3 noreply x 4 states x 4 presets; two-call sequences: 5 first calls x 20 x 3 x 3). " + NETNOTE,
    design="3 (C16)", technique=CH)

CHECKS["C19"] = dict(
    text="Bounded symbolic execution of AWSElastiCacheHashClient over the network model: advertised node subsets of a 4-node "
         "universe for up to 2 (thorough 3) successive configurations, use_vpc and the cut position of the config reply are "
         "symbolic; after construction and after every reconfigure_nodes() the rotation must equal the advertised names, a "
         "10-key corpus must be routed (real set) only to advertised nodes on the advertised address form and port, "
         "replaced clients' connections must be closed; error-line answers must raise the matching memcached error. "
         "All shards exhaust.",
    note="Bound: 4 nodes (the property mentions up to 6), cut at every position of the reply + receive sizes 4 and 7, config versions from {1, 9, 99999999999}. " + NETNOTE,
    design="3 (C19)", technique=CH)

CHECKS["C11"] = dict(
    text="Bounded symbolic execution of the real RendezvousHash with a hash function whose per-node scores are symbolic "
         "32-bit values (so every hash function, forced ties included): for every insertion order and every add/remove "
         "history (lookup after each event) get_node equals the independent argmax by (score, name) over the current node "
         "set - hence order- and history-independence and minimal disruption. Node-name spellings, the published murmur3 "
         "rule on enumerated node sets/keys/seeds (also through HashClient routing) and z3 witnesses (a key for every "
         "node, found by running the real murmur3 on bit-vector proxies) complete it. All shards exhaust.",
    note="Bound: <= 5 nodes with symbolic scores, histories of 3 (4) events. Statistical balance and the PYTHONHASHSEED sweep "
         "are outside what a solver decides (process independence follows from result == closed function, with C14).",
    design="3 (C11)", technique=CH + "; z3 QF_BV witnesses via the bit-vector proxy engine")

CHECKS["C12"] = dict(
    text="Bounded symbolic execution of HashClient's routing, batching and merging with a stub hasher driven by a symbolic "
         "assignment vector (every distribution of the routing keys over 2-3 servers, not only murmur3's) and recording "
         "per-server stores: every single-key operation reaches exactly the assigned server, multi-key operations deliver "
         "each key exactly once to its server, get_many == per-key gets, set_many's failed list == union of per-server "
         "failures, and what set_many wrote is found by gets/touch/incr/delete. All shards exhaust.",
    note="Bound: 5-key corpus (str/bytes twins, (server_key, key) pairs), all 32 subsets, 2-3 (thorough 1-4) servers. The solver "
         "enumerates the finite index space completely. Trusted: z3, the stub hasher/store.",
    design="3 (C12)", technique=CH)

CHECKS["C13"] = dict(
    text="Bounded symbolic execution of HashClient's failover machine with scripted per-server clients, a virtual clock and a "
         "table-driven hasher reproducing the real rendezvous placement: the event of every step (get on a key of server i, "
         "set_many, server i starts/stops failing), the clock advance before it, retry_timeout < dead_timeout and the "
         "recovery traffic gap are symbolic. Checked over the contact log: never 3 contacts of a failing server inside "
         "retry_timeout nor retry_attempts+3 inside dead_timeout, no eviction on a single failure, healthy servers never "
         "bypassed, keys of an evicted server answered by the others, set_many/get agreement, only the injected error or "
         "'all servers down' escapes (nothing with ignore_exc), rotation and ownership restored by steady healthy traffic.",
    note="Bound: 2 servers (3 in the pair shards and the thorough tier), 3-event histories (thorough 4) over the full alphabet, 5-6-event ones over reduced / scripted alphabets, plain keys and (server_key, key) pairs, "
         "timeouts <= 3 units. The recovery bound is 2*(dead_timeout + traffic gap) from the last eviction (the code compares "
         "with strict >). Trusted: z3, CrossHair int model, the stub client/hasher table.",
    design="3 (C13)", technique=CH)

CHECKS["C05"] = dict(
    text="Bounded symbolic execution of operation histories: the real client against the wire-level memcached model, stepped "
         "in lockstep with an independent API-level abstract map with expiry and cas versions. The first operation is the "
         "shard; the next operation(s), keys, argument variant (expiry / delta / cas-token choice), noreply and the clock "
         "advance between steps are symbolic indices. After every step the return value must equal the model's documented "
         "result and the server content must equal the model content (effects under noreply). All shards exhaust.",
    note="Bound: 2-operation histories (thorough 3) over 19 operations, 2 keys, candidate sets for expiry/advance/delta that "
         "realise below/at/above orderings. Everything is concrete once the indices are chosen: the solver enumerates the "
         "index space completely. Trusted: z3, vkit/model.py (specification), vkit/refserver.py, vkit/strict.py.",
    design="3 (C05)", technique=CH)

CHECKS["C08"] = dict(
    engine="ilv",
    text="The real ObjectPool methods are re-parsed from /repo on every run and rewritten into generators with one switch "
         "point per statement; 2-3 threads performing what PooledClient methods do (ok / raising / quit-style destroy / "
         "clear()) are run under a scheduler whose preemption steps and targets are symbolic; CrossHair/z3 enumerates "
         "every feasible schedule within the preemption bound. At every step: a connection is held by one thread, the pool "
         "holds <= max_size connections without duplicates or closed ones, no internal error, no deadlock; at the end "
         "every connection is idle xor closed exactly once. All shards exhaust.",
    note="Statement-granular preemption (not bytecode), <= 3 threads, 2 (thorough 3) preemptions plus forced switches on lock "
         "contention. This is the weakest use of the technique (each path is one schedule; the solver contributes the "
         "enumeration of feasible preemption vectors). The rewrite is validated at setup against the original class.",
    design="1.3 and 3 (C08)", technique="symbolic preemption points over generator-rewritten real code (CrossHair + z3), bounded")

NOT_YET = {}

NA_REASON_PENDING = "check not built yet in this session (planned; see DESIGN.md section 3)"


def main():
    props = [json.loads(l) for l in open(os.path.join(HERE, "properties.jsonl"))]
    checks = []
    na = []
    for p in props:
        pid = p["id"]
        c = CHECKS.get(pid)
        if c is None:
            na.append({"property_id": pid, "reason": NOT_YET.get(pid, NA_REASON_PENDING)})
            continue
        checks.append({
            "property_id": pid,
            "quick_cmd": "%s run.py --prop %s --tier quick" % (PY, pid),
            "thorough_cmd": "%s run.py --prop %s --tier thorough" % (PY, pid),
            "evidence_file": "evidence/%s.json" % pid,
            "replay_cmd_template": "%s run.py --replay {path}" % PY,
            "engine": c.get("engine", "crosshair"),
            "level_claimed": {"category": c.get("level", "model_checking"), "text": c["text"],
                              "design_ref": "DESIGN.md section " + c["design"]},
            "level_note": c["note"],
            "technique": c["technique"],
        })
    m = {
        "version": 1,
        "setup_cmd": "%s run.py --selftest" % PY,
        "hooks": {
            "guard": "PYMEMCACHE_VERIF",
            "enable": "no hooks: every observation point is a public seam (socket_module, client_class, hasher, "
                      "lock_generator, serde) or a module attribute rebound inside the checking process",
            "baseline_off_cmd": "cd /repo && /venv/bin/python -m pytest -ra -q -p no:cacheprovider --timeout=900 "
                                "--continue-on-collection-errors",
            "source_commits": [],
            "add_only": True,
        },
        "engines": [
            {"name": "crosshair", "path": "vkit/chworker.py",
             "serves_properties": [c["property_id"] for c in checks if c["engine"] == "crosshair"],
             "kind_free_text": "CrossHair 0.0.110 symbolic execution (z3) of the real pymemcache functions imported from /repo, "
                               "one process per concrete shard, reachability twin per shard, concrete replay of counterexamples"},
            {"name": "bvsym", "path": "vkit/bvsym.py",
             "serves_properties": [c["property_id"] for c in checks if c["engine"] == "bvsym"],
             "kind_free_text": "the real murmur3_32 executed on lazy unbounded-int proxies lowered on demand to z3 bit-vectors"},
            {"name": "ilv", "path": "vkit/ilv.py",
             "serves_properties": [c["property_id"] for c in checks if c["engine"] == "ilv"],
             "kind_free_text": "AST rewriter turning the real ObjectPool methods into schedulable generators; schedule symbolic under CrossHair"},
        ],
        "checks": checks,
        "not_applicable": na,
        "notes": "All checks: python3-vt run.py --prop <id> --tier quick|thorough. Exit 0 held / 1 replayed violation / "
                 "3 machinery inconclusive. Encodings are regenerated from /repo's working tree on every run (the modules "
                 "under analysis are imported from /repo; nothing is cached).",
    }
    m["engines"] = [e for e in m["engines"] if e["serves_properties"]]
    with open(os.path.join(HERE, "MANIFEST.json"), "w") as f:
        json.dump(m, f, indent=1)
    try:
        import jsonschema
        jsonschema.validate(m, json.load(open("/root/.vp/MANIFEST.schema.json")))
        print("MANIFEST.json valid:", len(checks), "checks,", len(na), "not_applicable")
    except ImportError:
        print("jsonschema not available; wrote MANIFEST.json")


if __name__ == "__main__":
    main()
