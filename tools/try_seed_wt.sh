#!/bin/bash
# usage: try_seed_wt.sh <seed name> <prop id> [tier]
# Like try_seed.sh but leaves /repo alone: a scratch worktree of /repo's HEAD gets the patch and the check runs against it
# (VERIF_REPO).  For use while something else is running against /repo; results are equivalent to try_seed.sh.
NAME=$1; PROP=$2; TIER=${3:-quick}
WT=/tmp/sw/$NAME.$$
mkdir -p /tmp/sw
git -C /repo worktree add -q --detach $WT HEAD || exit 2
git -C $WT apply /verif/seeded/$NAME/patch.diff || { echo "patch does not apply"; git -C /repo worktree remove --force $WT; exit 2; }
cd /verif
EVBAK=$(mktemp); cp evidence/$PROP.json $EVBAK 2>/dev/null
VERIF_REPO=$WT /opt/veriftools/pyvenv/bin/python run.py --prop $PROP --tier $TIER > /tmp/try_$NAME.log 2>&1; rc=$?
cp $EVBAK evidence/$PROP.json 2>/dev/null; rm -f $EVBAK
git -C /repo worktree remove --force $WT
echo "seed=$NAME prop=$PROP tier=$TIER exit=$rc"
grep -E "^VIOLATION|^HARNESS-ERROR|^SUMMARY|^NOT-EXH" /tmp/try_$NAME.log | cut -c1-300 | head -8
grep -A2 "^VIOLATION" /tmp/try_$NAME.log | grep "^   " | head -3 | cut -c1-300
