#!/usr/bin/env python3
"""Print the prompt given to an independent mutation sub-agent for one property (text of the property only)."""
import json, sys
pid = sys.argv[1]
wt = sys.argv[2] if len(sys.argv) > 2 else f"/tmp/wt/{pid}"
for l in open('/verif/properties.jsonl'):
    p = json.loads(l)
    if p['id'] == pid:
        break
else:
    raise SystemExit('no such property')
print(f"""You are testing how robust a Python library's guarantees are against subtle regressions.

The library is pinterest/pymemcache (pure-Python memcached client). You have your OWN scratch git worktree of it at {wt} . Work ONLY inside {wt} . Do NOT read, list or modify /repo or /verif (they are off limits; treat them as if they did not exist). There is no network.

Here is a semantic property the library is supposed to satisfy:

  Title: {p['title']}
  Statement: {p['statement']}
  Quantified over: {p['quantifier']['text']}

Your task: produce TWO different, independent, realistic source changes ("regressions") to the library code under {wt}/pymemcache (not to its tests) each of which BREAKS this property, while
  (a) the package still imports, and
  (b) the existing test suite still passes completely: run it with
        cd {wt} && /venv/bin/python -m pytest -ra -q -p no:cacheprovider --timeout=900 -x -q
      (488 tests pass on the unmodified tree; they must all still pass with your change).
The kind of change wanted is one a tired maintainer could plausibly make in a refactor or "optimisation" and that code review could miss. It must need something SPECIFIC to manifest: a particular interleaving, a fault at a particular point, a multi-step sequence of operations, an unusual input (a boundary length, a rare byte, a tie), or two cooperating sites that each look fine alone. Do NOT produce changes that ordinary use would expose at once (e.g. every call failing), and do not merely delete a whole feature. The two changes should exercise different mechanisms / different parts of the property.

For each change i in {{1,2}} deliver, under {wt}/_out/m<i>/ :
  - patch.diff  : `git diff` of the change relative to the worktree's HEAD (only library source files), applying cleanly with `git apply` on a clean checkout;
  - demo.py     : a small self-contained program (run as `cd <checkout> && /venv/bin/python _out/m<i>/demo.py` or with PYTHONPATH=<checkout>) that exits 0 and prints PASS on the unmodified library and exits 1 printing FAIL (with a short explanation) on the modified library. It must use only the standard library and the pymemcache under test (fake sockets / stub classes are fine; no real memcached, no network, no real sleeping for more than a second or two).
  - notes.md    : 5-10 lines: what the change is, which clause of the property it breaks, and exactly what is needed for it to manifest.
Verify all of it yourself: run the test suite with each change applied (separately, not both at once), run demo.py with and without the change, and finish with the worktree's tracked files reset to clean (`git -C {wt} checkout -- .`) so only the untracked _out/ directory remains. In your final answer, list for each change the files written, one paragraph describing it, and the test-suite result line you observed.""")
