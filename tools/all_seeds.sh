#!/bin/bash
# run every seeded mutant against the check of the property it breaks (and extra checks given in seeded/<name>/also)
cd /verif
for d in seeded/*/; do
  name=$(basename $d)
  prop=$(python3 -c "import json;print(json.load(open('$d/meta.json'))['breaks_property'])")
  props="$prop"
  [ -f $d/also ] && props="$props $(cat $d/also)"
  for p in $props; do
    out=$(tools/try_seed.sh $name $p 2>&1 | grep -v WARN)
    rc=$(echo "$out" | head -1 | sed 's/.*exit=//')
    nv=$(echo "$out" | grep -c "^VIOLATION")
    echo "$name $p exit=$rc violations_shown=$nv"
  done
done
