#!/bin/bash
# usage: some_seeds.sh <glob>   e.g. 'C*-m[34]'
cd /verif
for d in seeded/$1/; do
  name=$(basename $d)
  prop=$(python3 -c "import json;print(json.load(open('$d/meta.json'))['breaks_property'])")
  props="$prop"; [ -f $d/also ] && props="$props $(cat $d/also)"
  for p in $props; do
    out=$(tools/try_seed.sh $name $p 2>&1 | grep -v WARN)
    rc=$(echo "$out" | head -1 | sed 's/.*exit=//')
    echo "$name $p exit=$rc :: $(echo "$out" | grep '^   ' | head -1 | cut -c1-160)"
  done
done
