#!/bin/bash
# usage: try_seed.sh <seed name> <prop id> [tier]   -- apply /verif/seeded/<name>/patch.diff to /repo, run the check, undo
NAME=$1; PROP=$2; TIER=${3:-quick}
cd /repo || exit 2
if [ -n "$(git status --porcelain --untracked-files=no)" ]; then echo "/repo not clean"; exit 2; fi
git apply /verif/seeded/$NAME/patch.diff || { echo "patch does not apply"; git reset --hard -q HEAD; exit 2; }
cd /verif
EVBAK=$(mktemp); cp evidence/$PROP.json $EVBAK 2>/dev/null
/opt/veriftools/pyvenv/bin/python run.py --prop $PROP --tier $TIER > /tmp/try_$NAME.log 2>&1; rc=$?
cp $EVBAK evidence/$PROP.json 2>/dev/null; rm -f $EVBAK
git -C /repo reset --hard -q HEAD
echo "seed=$NAME prop=$PROP tier=$TIER exit=$rc"
grep -E "^VIOLATION|^HARNESS-ERROR|^SUMMARY|^NOT-EXH" /tmp/try_$NAME.log | cut -c1-300 | head -8
grep -A2 "^VIOLATION" /tmp/try_$NAME.log | grep "^   " | head -3 | cut -c1-300
