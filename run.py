#!/usr/bin/env python3
"""Entry point of the verification machinery (run with python3-vt, cwd anywhere).

  run.py --prop C20 --tier quick|thorough     decide one property; writes evidence/<id>.json
  run.py --replay replays/<file>.json         replay a recorded counterexample on the real code
  run.py --selftest                           validate the trusted models (setup_cmd)

Exit codes: 0 held on everything explored (KNOWN-FINDING / NOT-EXHAUSTED lines allowed),
            1 at least one replayed violation that known_findings.json does not list,
            3 machinery inconclusive (harness error, vacuous shard, counterexample that does not replay).
"""
import argparse
import concurrent.futures as cf
import hashlib
import importlib
import inspect
import json
import os
import subprocess
import sys
import time

HERE = os.path.dirname(os.path.abspath(__file__))
REPO = os.environ.get("VERIF_REPO", "/repo")
VT = os.environ.get("VERIF_VT_PYTHON", "/opt/veriftools/pyvenv/bin/python")
VENV = os.environ.get("VERIF_REPLAY_PYTHON", "/venv/bin/python")
if not os.path.exists(VT):
    VT = sys.executable

ENV = dict(os.environ)
ENV["PYTHONPATH"] = HERE + os.pathsep + REPO
ENV["PYTHONDONTWRITEBYTECODE"] = "1"
ENV["PYTHONHASHSEED"] = "0"
sys.path[:0] = [HERE, REPO]
sys.dont_write_bytecode = True


def sh(cmd, timeout):
    t0 = time.time()
    try:
        p = subprocess.run(cmd, env=ENV, cwd=HERE, capture_output=True, text=True, timeout=timeout)
        return p.returncode, p.stdout, p.stderr, time.time() - t0
    except subprocess.TimeoutExpired as e:
        return -9, (e.stdout or b"").decode() if isinstance(e.stdout, bytes) else (e.stdout or ""), "wall timeout", time.time() - t0


def run_job(job):
    runner = job.get("runner", "vkit.chworker")
    wall = float(job.get("timeout", 30)) * 10 + 300     # budgets are CPU seconds; the wall cap only guards against a hang and must not fire on a loaded machine
    rc, out, err, dt = sh([VT, "-m", runner, json.dumps(job)], wall)
    for line in out.splitlines()[::-1]:
        if line.startswith("RESULT "):
            r = json.loads(line[7:])
            r["job"] = job
            return r
    return {"status": "error", "message": "no RESULT line (rc=%s)\n%s\n%s" % (rc, out[-2000:], err[-4000:]),
            "job": job, "paths": 0, "cpu_s": 0, "counts": {}, "twin": bool(job.get("twin")),
            "shard": job.get("shard", {}), "fn": job.get("fn"), "module": job.get("module")}


def replay(module, fn, shard, call=None, args=None, kwargs=None, ignore_known=False):
    job = {"module": module, "fn": fn, "shard": shard, "ignore_known": ignore_known}
    if call is not None:
        job["call"] = call
    else:
        job["args"] = args or []
        job["kwargs"] = kwargs or {}
    rc, out, err, dt = sh([VENV, "-m", "vkit.replay", json.dumps(job)], 600)
    for line in out.splitlines()[::-1]:
        if line.startswith("REPLAY "):
            return json.loads(line[7:])
    return {"code": -2, "detail": [], "error": "replay produced no result (rc=%s): %s %s" % (rc, out[-500:], err[-1500:])}


def source_hashes(names):
    out = []
    for q in names:
        modname, _, qual = q.partition(":")
        try:
            obj = importlib.import_module(modname)
            for part in qual.split("."):
                if part:
                    obj = getattr(obj, part)
            obj = inspect.unwrap(obj) if callable(obj) else obj
            if isinstance(obj, property):
                obj = obj.fget
            src = inspect.getsource(obj)
            out.append({"function": q, "sha256": hashlib.sha256(src.encode()).hexdigest()[:16],
                        "lines": len(src.splitlines())})
        except Exception as e:
            out.append({"function": q, "error": "%s: %s" % (type(e).__name__, e)})
    return out


def load_known_all():
    try:
        return json.load(open(os.path.join(HERE, "known_findings.json"))).get("findings", [])
    except FileNotFoundError:
        return []


def decide(prop, tier, seed, jobs_n, only=None, verbose=False):
    t0 = time.time()
    mod = importlib.import_module("harness." + prop)
    shard_jobs = mod.shards(tier)
    if only:
        shard_jobs = [j for j in shard_jobs if only in json.dumps(j)]
    jobs = []
    for j in shard_jobs:
        j = dict(j)
        j.setdefault("module", "harness." + prop)
        j["seed"] = seed
        jobs.append(j)
        if j.get("runner", "vkit.chworker") == "vkit.chworker" and not j.get("no_twin"):
            tj = dict(j, twin=True, timeout=min(120, float(j.get("timeout", 30))))
            jobs.append(tj)
    smoke = float(os.environ.get("VERIF_SMOKE", "0") or 0)
    if smoke:      # development aid: cap every shard's budget to look for harness errors in a tier's configuration quickly
        for j in jobs:
            j["timeout"] = min(float(j.get("timeout", 30)), smoke)
    # long jobs first
    order = sorted(range(len(jobs)), key=lambda i: -float(jobs[i].get("timeout", 30)) * float(jobs[i].get("weight", 1))
                   * (0.2 if jobs[i].get("twin") else 1))
    results = [None] * len(jobs)
    with cf.ThreadPoolExecutor(max_workers=jobs_n) as ex:
        futs = {ex.submit(run_job, jobs[i]): i for i in order}
        for f in cf.as_completed(futs):
            i = futs[f]
            results[i] = f.result()
            if verbose:
                r = results[i]
                print("  [%s] %s %s %s paths=%s cpu=%ss %s" % (
                    "twin" if r.get("twin") else "main", r.get("fn"), json.dumps(r.get("shard")), r["status"],
                    r.get("paths"), r.get("cpu_s"), (r.get("message") or "")[:200].replace("\n", " ")), flush=True)

    main = [r for r in results if not r.get("twin")]
    twins = [r for r in results if r.get("twin")]
    problems = []   # harness errors -> exit 3
    violations = []
    not_exhausted = []
    samples = []
    replays_ok = 0
    os.makedirs(os.path.join(HERE, "replays"), exist_ok=True)

    for r in twins:
        if r["status"] == "refuted" and "which returns 2" in (r.get("message") or ""):
            if len(samples) < 12:
                samples.append({"harness": r["fn"], "shard": r["shard"],
                                "case": r["message"].replace("false when calling ", "")})
        elif r["status"] == "refuted":
            pass  # the twin met the real violation first; the main run reports it
        else:
            problems.append("vacuity: reachability twin of %s %s was not refuted (%s %s)" % (
                r["fn"], json.dumps(r["shard"]), r["status"], (r.get("message") or "")[:300]))

    for r in main:
        for q in (r.get("queries") or [])[:2]:
            if len(samples) < 12:
                samples.append({"harness": r.get("fn"), "query": q})
        st = r["status"]
        if st == "confirmed":
            continue
        if st == "unknown":
            not_exhausted.append(r)
            if r.get("undecided_path"):
                problems.append("a path of %s %s could not be decided (operation outside CrossHair's models or solver "
                                "unknown); the shard is inconclusive" % (r.get("fn"), json.dumps(r.get("shard"))))
            continue
        if st == "refuted":
            rep = r.get("replay")  # custom engines supply their own replay target
            try:
                if rep:
                    rr = replay(rep["module"], rep["fn"], rep.get("shard", {}), args=rep.get("args"), kwargs=rep.get("kwargs"))
                else:
                    rr = replay(r["module"], r["fn"], r["shard"], call=r["message"])
            except Exception as e:
                rr = {"code": -2, "error": str(e), "detail": []}
            if rr.get("code") == 0:
                replays_ok += 1
                rec = {"property": prop, "harness": r["module"] + ":" + r["fn"], "shard": r["shard"],
                       "counterexample": r.get("message"), "args": rr.get("args"), "kwargs": rr.get("kwargs"),
                       "observed": rr.get("detail"), "replayed_with": VENV + " " + rr.get("python", ""),
                       "replay_target": rep or {"module": r["module"], "fn": r["fn"], "shard": r["shard"]}}
                digest = hashlib.sha256(json.dumps(rec, sort_keys=True).encode()).hexdigest()[:12]
                path = os.path.join("replays", "%s-%s.json" % (prop, digest))
                with open(os.path.join(HERE, path), "w") as f:
                    json.dump(rec, f, indent=1)
                violations.append((path, rec))
            else:
                problems.append("counterexample did not replay on the real code (encoding/model error): %s %s -> %s" % (
                    r["fn"], r.get("message"), json.dumps(rr)[:600]))
            continue
        problems.append("%s %s %s: %s" % (st, r.get("fn"), json.dumps(r.get("shard")), (r.get("message") or "")[:1500]))

    # known findings: replay stored witnesses (open ones are excluded from the symbolic search by the harness)
    known_lines = []
    for e in load_known_all():
        if e["property"] != prop:
            continue
        if e.get("status") == "open":
            w = e["witness"]
            rr = replay(w["module"], w["fn"], w.get("shard", {}), args=w.get("args"), kwargs=w.get("kwargs"), ignore_known=True)
            if rr.get("code") == 0:
                known_lines.append("KNOWN-FINDING: property=%s %s [%s]" % (prop, e["what"], e["id"]))
            else:
                known_lines.append("NOTE: known finding %s no longer reproduces (code=%s); consider marking it fixed" % (e["id"], rr.get("code")))

    wall = time.time() - t0
    paths = sum(int(r.get("paths") or 0) for r in main)
    counts = {}
    for r in main:
        for k, v in (r.get("counts") or {}).items():
            counts[k] = counts.get(k, 0) + v
    exhausted = sum(1 for r in main if r["status"] == "confirmed")
    ev = {
        "property_id": prop,
        "tier": tier,
        "seed": seed,
        "level": getattr(mod, "LEVEL", "model_checking"),
        "coverage": {
            "evaluations": max(paths, int(counts.get("OK", 0)) + int(counts.get("SKIP", 0)) + int(counts.get("VIOL", 0))),
            "distinct_nontrivial": int(counts.get("OK", 0)),
            "rule": getattr(mod, "RULE", ""),
            "samples": samples or [{"note": "no sample collected"}],
            "exhaustive": bool(main) and exhausted == len(main) and not problems,
            "engine": getattr(mod, "ENGINE", "CrossHair 0.0.110 (z3) symbolic execution of the real functions, sharded"),
            "functions_encoded": source_hashes(getattr(mod, "FUNCTIONS", [])),
            "bounds": getattr(mod, "BOUNDS", {}).get(tier, ""),
            "outside_bounds": getattr(mod, "OUTSIDE", ""),
            "shards_run": len(main),
            "shards_exhausted": exhausted,
            "shards_not_exhausted": [{"fn": r["fn"], "shard": r["shard"], "paths": r.get("paths")} for r in not_exhausted][:50],
            "queries_discharged": paths + len(twins),
            "paths_explored": paths,
            "solver_cpu_s": round(sum(float(r.get("cpu_s") or 0) for r in results), 1),
            "reach_counters": counts,
            "realizations": {k: sum(int((r.get("realizations") or {}).get(k, 0)) for r in main) for k in ("int", "other")},
            "twins_refuted": sum(1 for r in twins if r["status"] == "refuted"),
            "twins_total": len(twins),
            "counterexamples_replayed": replays_ok,
            "known_findings": known_lines,
            "trusted_base": getattr(mod, "TRUSTED", ["z3", "CrossHair models of int/bytes/str/list", "vkit/ch_models.py"]),
            "machinery_problems": problems[:20],
        },
        "assumptions": getattr(mod, "ASSUMPTIONS", []),
        "wall_s": round(wall, 1),
        "violations": len(violations),
    }
    evdir = os.path.join(HERE, "evidence") if not os.environ.get("VERIF_SMOKE") else "/tmp/verif_smoke_evidence"
    os.makedirs(evdir, exist_ok=True)
    with open(os.path.join(evdir, prop + ".json"), "w") as f:
        json.dump(ev, f, indent=1)

    for line in known_lines:
        print(line)
    for r in not_exhausted:
        print("NOT-EXHAUSTED: property=%s %s %s paths=%s (budget ended; no violation on the explored part)" % (
            prop, r["fn"], json.dumps(r["shard"]), r.get("paths")))
    seen = set()
    for path, rec in violations:
        if path in seen:
            continue
        seen.add(path)
        print("VIOLATION property=%s replay=%s" % (prop, path))
        for d in (rec.get("observed") or [])[:3]:
            print("   " + d[:300])
    for p in problems:
        print("HARNESS-ERROR: property=%s %s" % (prop, p))
    print("SUMMARY property=%s tier=%s shards=%d exhausted=%d paths=%d ok_paths=%d violations=%d problems=%d wall=%.0fs" % (
        prop, tier, len(main), exhausted, paths, counts.get("OK", 0), len(seen), len(problems), wall))
    if violations:
        return 1
    if problems:
        return 3
    return 0


def do_replay(path):
    rec = json.load(open(path if os.path.isabs(path) else os.path.join(HERE, path)))
    t = rec["replay_target"]
    if "args" in t or "kwargs" in t:
        rr = replay(t["module"], t["fn"], t.get("shard", {}), args=t.get("args"), kwargs=t.get("kwargs"))
    else:
        rr = replay(t["module"], t["fn"], t.get("shard", {}), args=rec.get("args"), kwargs=rec.get("kwargs"))
    print(json.dumps(rr, indent=1))
    if rr.get("code") == 0:
        print("VIOLATION property=%s replay=%s" % (rec["property"], path))
        return 1
    print("replay did not reproduce the violation (code=%s)" % rr.get("code"))
    return 0


def selftest():
    from vkit import ch_models
    n = ch_models.selftest()
    print("ch_models: %d differential cases ok" % n)
    ok = True
    for name in ("vkit.bvsym", "harness.C14", "vkit.strict", "vkit.refserver", "vkit.ilv"):
        try:
            m = importlib.import_module(name)
        except ModuleNotFoundError:
            continue
        if hasattr(m, "selftest"):
            try:
                print("%s: %s" % (name, m.selftest()))
            except Exception as e:
                ok = False
                print("%s selftest FAILED: %s: %s" % (name, type(e).__name__, e))
    import crosshair, z3  # noqa
    print("crosshair", getattr(crosshair, "__version__", "?"), "z3", z3.get_version_string())
    rc, out, err, dt = sh([VENV, "-c", "import pymemcache, sys; print(pymemcache.__file__, sys.version.split()[0])"], 60)
    print("replay interpreter:", out.strip() or err.strip())
    return 0 if ok and rc == 0 else 1


def main():
    ap = argparse.ArgumentParser()
    ap.add_argument("--prop")
    ap.add_argument("--tier", default=os.environ.get("VERIF_TIER", "quick"))
    ap.add_argument("--replay")
    ap.add_argument("--selftest", action="store_true")
    ap.add_argument("--jobs", type=int, default=int(os.environ.get("VERIF_JOBS", "16")))
    ap.add_argument("--only")
    ap.add_argument("-v", action="store_true")
    a = ap.parse_args()
    seed = int(os.environ.get("VERIF_SEED", "0") or 0)
    if a.selftest:
        sys.exit(selftest())
    if a.replay:
        sys.exit(do_replay(a.replay))
    if not a.prop:
        ap.error("--prop required")
    try:
        rc = decide(a.prop, a.tier, seed, a.jobs, a.only, a.v)
    except Exception as e:      # a crash of the machinery is never a verdict about the property
        import traceback
        traceback.print_exc()
        print("HARNESS-ERROR: property=%s the runner crashed: %s: %s" % (a.prop, type(e).__name__, e))
        rc = 3
    sys.exit(rc)


if __name__ == "__main__":
    main()
