"""Harness-side counters. Importable with or without CrossHair present.

Harness functions return one of
    VIOL (0)  the property's assertion failed on this path
    SKIP (1)  the path ended before the oracle was evaluated (input outside the stated bound)
    OK   (2)  the oracle was evaluated and held
The checked postcondition is `_ != 0`; the reachability twin's is `_ != 2` (it must be refuted).
"""
import collections
import os

_UNDER_CH = os.environ.get("VERIF_UNDER_CROSSHAIR") == "1"

VIOL, SKIP, OK = 0, 1, 2

COUNTS = collections.Counter()
DETAIL = []  # filled by harnesses when they are about to return VIOL (concrete replays read it)
CASES = set()  # harness-chosen *concrete* case labels (distinct non-trivial accounting)


def hit(name, n=1):
    COUNTS[name] += n


def case(label):
    """record a concrete (never symbolic) label classifying the completed path"""
    CASES.add(label)


def detail(*what):
    DETAIL.append(" ".join(str(w) for w in what))


def reset():
    COUNTS.clear()
    DETAIL.clear()
    CASES.clear()


def ok(label="ok"):
    COUNTS["OK"] += 1
    COUNTS["ok:" + label] += 1
    return OK


def skip(label="skip"):
    COUNTS["SKIP"] += 1
    COUNTS["skip:" + label] += 1
    return SKIP


def viol(*what):
    COUNTS["VIOL"] += 1
    if not _UNDER_CH:
        # messages are only built in concrete replays: formatting symbolic operands under CrossHair
        # can raise ("proxy intolerance") and would turn a refutation into an unknown path
        try:
            DETAIL.append(" ".join(str(w) for w in what))
        except Exception as e:
            DETAIL.append("violation (message could not be formatted: %s)" % type(e).__name__)
    return VIOL
