"""Concrete replay of a counterexample on the unpatched code, plain interpreter, no CrossHair.

/venv/bin/python -m vkit.replay '<json job>'      job = {module, fn, shard, call | args/kwargs}
Prints "REPLAY <json>" with {code, detail}.  code 0 = the violation reproduces.
"""
import ast
import importlib
import json
import os
import sys


def parse_call(text):
    """'false when calling h(b"x", 1) (which returns 0)' -> (name, args, kwargs)"""
    t = text
    if "when calling " in t:
        t = t.split("when calling ", 1)[1]
    if " with crosshair.patch_to_return" in t:
        raise ValueError("counterexample depends on a patched nondeterministic function: " + text)
    for tail in (" (which returns", " (which raises"):
        i = t.rfind(tail)
        if i != -1:
            t = t[:i]
    node = ast.parse(t.strip(), mode="eval").body
    if not isinstance(node, ast.Call):
        raise ValueError("not a call: " + text)
    env = {}

    def ev(n):
        # CrossHair prints aliased arguments as `v1:=<literal>` ... `v1`
        if isinstance(n, ast.NamedExpr):
            v = ev(n.value)
            env[n.target.id] = v
            return v
        if isinstance(n, ast.Name) and n.id in env:
            return env[n.id]
        if isinstance(n, (ast.Tuple, ast.List)):
            items = [ev(e) for e in n.elts]
            return tuple(items) if isinstance(n, ast.Tuple) else items
        return ast.literal_eval(n)

    args = [ev(a) for a in node.args]
    kwargs = {k.arg: ev(k.value) for k in node.keywords}
    name = node.func.id if isinstance(node.func, ast.Name) else ast.unparse(node.func)
    return name, args, kwargs


def encode(v):
    """JSON-safe tagged encoding of literal argument values"""
    if isinstance(v, bytes):
        return {"__bytes__": v.hex()}
    if isinstance(v, tuple):
        return {"__tuple__": [encode(x) for x in v]}
    if isinstance(v, list):
        return [encode(x) for x in v]
    if isinstance(v, dict):
        return {"__dict__": [[encode(k), encode(x)] for k, x in v.items()]}
    if isinstance(v, float):
        return {"__float__": repr(v)}
    return v


def decode(v):
    if isinstance(v, dict):
        if "__bytes__" in v:
            return bytes.fromhex(v["__bytes__"])
        if "__tuple__" in v:
            return tuple(decode(x) for x in v["__tuple__"])
        if "__dict__" in v:
            return {decode(k): decode(x) for k, x in v["__dict__"]}
        if "__float__" in v:
            return float(v["__float__"])
    if isinstance(v, list):
        return [decode(x) for x in v]
    return v


def run(job):
    os.environ["VERIF_SHARD"] = json.dumps(job.get("shard", {}))
    os.environ.pop("VERIF_UNDER_CROSSHAIR", None)
    if job.get("ignore_known"):
        os.environ["VERIF_IGNORE_KNOWN"] = "1"
    from vkit import stats
    mod = importlib.import_module(job["module"])
    fn = getattr(mod, job["fn"])
    if "call" in job:
        _, args, kwargs = parse_call(job["call"])
    else:
        args = [decode(a) for a in job.get("args", [])]
        kwargs = {k: decode(v) for k, v in job.get("kwargs", {}).items()}
    stats.reset()
    try:
        code = fn(*args, **kwargs)
        err = None
    except Exception as e:  # a harness that raises concretely is itself evidence (reported, not hidden)
        code = -1
        err = "%s: %s" % (type(e).__name__, e)
    return {
        "code": code,
        "detail": list(stats.DETAIL),
        "error": err,
        "args": [encode(a) for a in args],
        "kwargs": {k: encode(v) for k, v in kwargs.items()},
        "python": sys.version.split()[0],
    }


if __name__ == "__main__":
    job = json.loads(sys.argv[1])
    print("REPLAY " + json.dumps(run(job)), flush=True)
