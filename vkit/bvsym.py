"""Engine B: run a real integer kernel natively on lazy *unbounded non-negative int* proxies and lower the
result to z3 bit-vectors on demand (only the low k bits a consumer needs).

Exactness: a node denotes a mathematical non-negative integer with a static upper bound `hi` on its bit
length; no wrap-around is assumed anywhere.  Lowering identities (the trusted base, proved by z3 at small
widths and differential-tested in selftest()):

    low_k(a op b) = low_k(a) op low_k(b)          for op in + * | ^ &
    low_k(a << s) = low_{k-s}(a) << s
    low_k(a >> s) = extract(low_{k+s}(a), k+s-1, s)
    low_k(a)      = zero_extend(low_hi(a))          when k > hi(a)
    a % m, a // m (m constant) are lowered at the full static width of a.
"""
import z3


class Unsupported(Exception):
    """the code under analysis used an operation the proxies do not model"""


class N:
    __slots__ = ("op", "a", "hi", "_memo")

    def __init__(self, op, a, hi):
        self.op, self.a, self.hi, self._memo = op, a, hi, {}

    @staticmethod
    def lift(x):
        if isinstance(x, N):
            return x
        if isinstance(x, bool) or not isinstance(x, int) or x < 0:
            raise Unsupported("operand %r" % (x,))
        return N("const", (x,), x.bit_length())

    def __or__(s, o):
        o = N.lift(o)
        return N("or", (s, o), max(s.hi, o.hi))

    __ror__ = __or__

    def __xor__(s, o):
        o = N.lift(o)
        return N("xor", (s, o), max(s.hi, o.hi))

    __rxor__ = __xor__

    def __and__(s, o):
        o = N.lift(o)
        return N("and", (s, o), min(s.hi, o.hi))

    __rand__ = __and__

    def __add__(s, o):
        o = N.lift(o)
        return N("add", (s, o), max(s.hi, o.hi) + 1)

    __radd__ = __add__

    def __mul__(s, o):
        o = N.lift(o)
        return N("mul", (s, o), s.hi + o.hi)

    __rmul__ = __mul__

    def __lshift__(s, k):
        if not (isinstance(k, int) and k >= 0):
            raise Unsupported("shift by %r" % (k,))
        return N("shl", (s, k), s.hi + k)

    def __rshift__(s, k):
        if not (isinstance(k, int) and k >= 0):
            raise Unsupported("shift by %r" % (k,))
        return N("shr", (s, k), max(0, s.hi - k))

    def __mod__(s, m):
        if not (isinstance(m, int) and m > 0):
            raise Unsupported("mod by %r" % (m,))
        if m & (m - 1) == 0:
            return s & (m - 1)
        return N("mod", (s, m), min(s.hi, m.bit_length()))

    def __floordiv__(s, m):
        if not (isinstance(m, int) and m > 0):
            raise Unsupported("div by %r" % (m,))
        if m & (m - 1) == 0:
            return s >> (m.bit_length() - 1)
        return N("div", (s, m), s.hi)

    def _unsupported(self, *a, **k):
        raise Unsupported("operation outside the proxy model")

    __sub__ = __rsub__ = __neg__ = __invert__ = __pow__ = __truediv__ = _unsupported
    __bool__ = __index__ = __int__ = __lt__ = __le__ = __gt__ = __ge__ = __hash__ = _unsupported

    def __eq__(self, o):
        raise Unsupported("comparison of a symbolic value")

    def low(s, k):
        """z3 BV of width k equal to (value mod 2**k)"""
        if k <= 0:
            raise Unsupported("width")
        if k in s._memo:
            return s._memo[k]
        op, a = s.op, s.a
        if k > s.hi:
            r = z3.ZeroExt(k - s.hi, s.low(s.hi)) if s.hi > 0 else z3.BitVecVal(0, k)
        elif op == "const":
            r = z3.BitVecVal(a[0] & ((1 << k) - 1), k)
        elif op == "var":
            e, w = a
            r = e if k == w else z3.Extract(k - 1, 0, e)
        elif op in ("or", "xor", "and", "add", "mul"):
            x, y = a[0].low(k), a[1].low(k)
            r = {"or": x | y, "xor": x ^ y, "and": x & y, "add": x + y, "mul": x * y}[op]
        elif op == "shl":
            x, sh = a
            if sh >= k:
                r = z3.BitVecVal(0, k)
            elif sh > 0:
                r = z3.Concat(x.low(k - sh), z3.BitVecVal(0, sh))
            else:
                r = x.low(k)
        elif op == "shr":
            x, sh = a
            r = z3.Extract(k + sh - 1, sh, x.low(k + sh)) if sh > 0 else x.low(k)
        elif op in ("mod", "div"):
            x, m = a
            w = max(x.hi, m.bit_length(), 1)
            full = x.low(w)
            mm = z3.BitVecVal(m, w)
            v = z3.URem(full, mm) if op == "mod" else z3.UDiv(full, mm)
            r = z3.Extract(k - 1, 0, v) if k < w else (z3.ZeroExt(k - w, v) if k > w else v)
        else:
            raise Unsupported(op)
        s._memo[k] = r
        return r


def var(name, width):
    return N("var", (z3.BitVec(name, width), width), width)


def selftest():
    """prove the lowering identities at small widths and differential-test N against Python ints"""
    import random
    n = 0
    # identities, width 8 operands, all k in 1..8 (z3 proves each as unsat of the negation over integers mod 2^k)
    a, b = z3.BitVecs("a b", 12)
    for k in range(1, 9):
        for name, full, lowd in (
            ("add", a + b, z3.Extract(k - 1, 0, a) + z3.Extract(k - 1, 0, b)),
            ("mul", a * b, z3.Extract(k - 1, 0, a) * z3.Extract(k - 1, 0, b)),
            ("xor", a ^ b, z3.Extract(k - 1, 0, a) ^ z3.Extract(k - 1, 0, b)),
        ):
            s = z3.Solver()
            s.add(z3.Extract(k - 1, 0, full) != lowd)
            assert str(s.check()) == "unsat", (name, k)
            n += 1
    rnd = random.Random(1)
    for _ in range(400):
        x, y, z = rnd.randrange(1 << 40), rnd.randrange(1 << 33), rnd.randrange(1 << 9)
        X, Y, Z = N.lift(x), N.lift(y), N.lift(z)
        sh = rnd.randrange(0, 20)
        m = rnd.choice([3, 5, 0xFFFFFFFF, 1000, 7])
        exprs = [
            ((X * Y + Z) ^ (X >> sh), (x * y + z) ^ (x >> sh)),
            (((X << sh) | Y) & 0xFFFFFFFF, ((x << sh) | y) & 0xFFFFFFFF),
            ((X * 5 + 0xE6546B64) >> 3, (x * 5 + 0xE6546B64) >> 3),
            ((X % m) + (Y // m), (x % m) + (y // m)),
        ]
        for node, want in exprs:
            for k in (1, 7, 32, 33, 64):
                got = z3.simplify(node.low(k)).as_long()
                assert got == want % (1 << k), (node.op, k)
                n += 1
    return "%d identity/differential checks ok" % n
