"""Symbolic models of four CPython builtins that CrossHair 0.0.110 would otherwise concretise.

Each site was found by tracing `SMT realized symbolic` events back into /repo (see DESIGN 1.1):

  bytes.split()            (base.py check_key_helper, _extract_value, stats parsing)
  x in bytes               (base.py check_key_helper NUL test)
  "..%r" % symbolic        (every `raise MemcacheIllegalInputError("...%r" % key)`)
  str.encode(..) error path

`install()` is idempotent and must be called after `crosshair.core_and_libs` is imported.
`selftest()` differential-tests the pure-Python algorithms used by the models against CPython.
"""
import itertools
import random


def _split_ws(seq, is_space):
    """whitespace split over an indexable byte sequence (element-wise; forks once per element)"""
    parts = []
    start = None
    n = len(seq)
    for i in range(n):
        if is_space(seq[i]):
            if start is not None:
                parts.append(seq[start:i])
                start = None
        elif start is None:
            start = i
    if start is not None:
        parts.append(seq[start:n])
    return parts


_INSTALLED = False


def install():
    global _INSTALLED
    if _INSTALLED:
        return
    _INSTALLED = True
    import crosshair.core_and_libs  # noqa: F401  (registers libimpl patches)
    from crosshair.libimpl import builtinslib as B
    from crosshair import core as C
    from crosshair.util import CrossHairValue
    from crosshair.tracers import NoTracing

    _orig_split = B.BytesLike.split
    is_space = B.is_ascii_space_ord

    def _split(self, sep=None, maxsplit=-1):
        if sep is not None or maxsplit != -1:
            return _orig_split(self, sep, maxsplit)
        return _split_ws(self, is_space)

    B.BytesLike.split = _split

    def _contains(self, item):
        return self.find(item) != -1

    B.BytesLike.__contains__ = _contains

    def _has_sym(x):
        if isinstance(x, CrossHairValue):
            return True
        if type(x) in (tuple, list):
            return any(_has_sym(i) for i in x)
        return False

    def _fmt(self, other):
        with NoTracing():
            sym = _has_sym(other) or _has_sym(self)
        if not sym:
            with NoTracing():
                return str.__mod__(self, other)
        # messages are not the subject of any property: do not realize the operands
        return "<formatted message>"

    C._PATCH_REGISTRATIONS[str.__mod__] = _fmt

    # concrete_bytes.startswith(<symbolic bytes>) reaches the C implementation with a proxy argument (TypeError ->
    # "proxy intolerance" -> undecidable path).  Model: slice-and-compare, which CrossHair keeps symbolic.
    def _bytes_startswith(self, prefix, start=None, end=None):
        with NoTracing():
            native = type(self) is bytes and (
                type(prefix) is bytes or (type(prefix) is tuple and all(type(p) is bytes for p in prefix)))
            if native:
                return bytes.startswith(self, prefix, start, end) if start is not None or end is not None \
                    else bytes.startswith(self, prefix)
        if start is not None or end is not None:
            self = self[start:end]
        for p in (prefix if isinstance(prefix, tuple) else (prefix,)):
            n = len(p)
            if n <= len(self) and self[:n] == p:
                return True
        return False

    C._PATCH_REGISTRATIONS[bytes.startswith] = _bytes_startswith

    # CrossHair's "premature realization" search heuristic (make_concrete_or_symbolic) opens, for every
    # int/bool/str argument, a parallel branch in which the value is enumerated one by one *before* the
    # preconditions apply.  It never contributes to exhaustion and (measured on C17) eats >95% of the
    # iterations once any path realizes an argument.  Always create the symbolic value instead.
    def _always_symbolic(typ):
        def make(creator, *type_args):
            return typ(creator.varname, creator.pytype)
        return make

    for pytype, symtype in ((int, B.SymbolicBoundedInt), (bool, B.SymbolicBool), (str, B.LazyIntSymbolicStr)):
        if pytype in C._SIMPLE_PROXIES:
            C._SIMPLE_PROXIES[pytype] = _always_symbolic(symtype)

    from crosshair.libimpl.encodings import _encutil as E

    def encode(cls, input, errors="strict"):
        if not (isinstance(input, str) and isinstance(errors, str)):
            raise TypeError
        parts = []
        idx = 0
        inputlen = len(input)
        while idx < inputlen:
            out, idx, err = cls._encode_chunk(input, idx)
            parts.append(out)
            if err is not None:
                if errors == "strict":
                    # do not realize the input just to decorate the exception object
                    raise UnicodeEncodeError(cls.encoding_name, "?", 0, 1, err.reason())
                raise NotImplementedError
        return b"".join(parts), idx

    E.StemEncoder.encode = classmethod(encode)


def selftest(seed=0):
    """differential test of the model algorithms against CPython; returns number of cases"""
    alphabet = [0, 9, 10, 11, 12, 13, 0x1C, 32, 97, 127, 128, 255]
    ws = b" \t\n\r\x0b\x0c"
    is_space = lambda b: b in ws
    n = 0
    for length in range(0, 4):
        for t in itertools.product(alphabet, repeat=length):
            b = bytes(t)
            assert _split_ws(b, is_space) == b.split(), b
            assert (b.find(b"\x00") != -1) == (b"\x00" in b)
            n += 1
    rnd = random.Random(seed)
    for _ in range(3000):
        b = bytes(rnd.choice(alphabet + list(range(256))) for _ in range(rnd.randrange(0, 12)))
        assert _split_ws(b, is_space) == b.split(), b
        n += 1
    # crosshair's own whitespace predicate agrees with CPython's for all byte values
    try:
        from crosshair.libimpl import builtinslib as B
        for v in range(256):
            assert bool(B.is_ascii_space_ord(v)) == (bytes([v]).isspace()), v
            n += 1
    except ImportError:
        pass
    return n
