"""Independent strict parser / builder for the memcached text protocol (request side).

parse(wire) -> list of Cmd, or raises ParseError.  Strict means: exact single spaces, decimal fields with
no sign (except exptime) and no leading '+', values inside the protocol's ranges, key 1..250 bytes without
SP TAB LF VT FF CR NUL, a data block of exactly <bytes> bytes followed by CR LF, optional `noreply` as the
last token, and nothing left over after the last command.

build(cmd) -> bytes is the inverse for well-formed commands; selftest() checks parse(build(c)) == c.
"""
import re

BAD_KEY = frozenset((0, 9, 10, 11, 12, 13, 32))
STORE = (b"set", b"add", b"replace", b"append", b"prepend")
U32 = 2 ** 32 - 1
U64 = 2 ** 64 - 1
I64 = (-(2 ** 63), 2 ** 63 - 1)


class ParseError(Exception):
    pass


class Cmd:
    __slots__ = ("verb", "keys", "flags", "exptime", "data", "cas", "value", "noreply", "args")

    def __init__(self, verb, keys=(), flags=None, exptime=None, data=None, cas=None, value=None, noreply=False,
                 args=()):
        self.verb, self.keys, self.flags, self.exptime = verb, tuple(keys), flags, exptime
        self.data, self.cas, self.value, self.noreply, self.args = data, cas, value, noreply, tuple(args)

    def astuple(self):
        return (self.verb, self.keys, self.flags, self.exptime, self.data, self.cas, self.value, self.noreply,
                self.args)

    def __eq__(self, o):
        return isinstance(o, Cmd) and self.astuple() == o.astuple()

    def __repr__(self):
        return "Cmd%r" % (self.astuple(),)


_UINT = re.compile(rb"\A(0|[1-9][0-9]*)\Z")
_INT = re.compile(rb"\A-?(0|[1-9][0-9]*)\Z")


def _uint(tok, hi, what):
    if not _UINT.match(tok):
        raise ParseError("bad %s %r" % (what, tok))
    v = int(tok)
    if v > hi:
        raise ParseError("%s out of range: %r" % (what, tok))
    return v


def _int(tok, what):
    if not _INT.match(tok) or tok == b"-0":
        raise ParseError("bad %s %r" % (what, tok))
    v = int(tok)
    if not (I64[0] <= v <= I64[1]):
        raise ParseError("%s out of range: %r" % (what, tok))
    return v


def _key(tok):
    if not (1 <= len(tok) <= 250):
        raise ParseError("bad key length %d" % len(tok))
    for b in tok:
        if b in BAD_KEY:
            raise ParseError("illegal byte %#x in key" % b)
    return tok


def _noreply(toks, n):
    """tokens beyond the n mandatory ones: nothing or exactly [b'noreply']"""
    if len(toks) == n:
        return False
    if len(toks) == n + 1 and toks[n] == b"noreply":
        return True
    raise ParseError("trailing tokens %r" % (toks[n:],))


def parse(wire):
    out = []
    pos = 0
    n = len(wire)
    while pos < n:
        eol = wire.find(b"\r\n", pos)
        if eol < 0:
            raise ParseError("unterminated command line")
        line = wire[pos:eol]
        pos = eol + 2
        if b"\n" in line or b"\r" in line or b"\x00" in line:
            raise ParseError("control byte inside command line")
        toks = line.split(b" ")
        if any(t == b"" for t in toks):
            raise ParseError("empty token (double, leading or trailing space) in %r" % line)
        verb = toks[0]
        if verb in STORE or verb == b"cas":
            m = 6 if verb == b"cas" else 5
            if len(toks) < m:
                raise ParseError("too few tokens for %r" % verb)
            key = _key(toks[1])
            flags = _uint(toks[2], U32, "flags")
            exptime = _int(toks[3], "exptime")
            size = _uint(toks[4], 2 ** 31, "bytes")
            cas = _uint(toks[5], U64, "cas") if verb == b"cas" else None
            nr = _noreply(toks, m)
            if pos + size + 2 > n:
                raise ParseError("data block shorter than announced")
            data = wire[pos:pos + size]
            if wire[pos + size:pos + size + 2] != b"\r\n":
                raise ParseError("data block not followed by CR LF")
            pos += size + 2
            out.append(Cmd(verb, [key], flags=flags, exptime=exptime, data=data, cas=cas, noreply=nr))
        elif verb in (b"get", b"gets"):
            if len(toks) < 2:
                raise ParseError("get without key")
            out.append(Cmd(verb, [_key(t) for t in toks[1:]]))
        elif verb in (b"gat", b"gats"):
            if len(toks) < 3:
                raise ParseError("gat without key")
            out.append(Cmd(verb, [_key(t) for t in toks[2:]], exptime=_int(toks[1], "exptime")))
        elif verb == b"delete":
            if len(toks) < 2:
                raise ParseError("delete without key")
            out.append(Cmd(verb, [_key(toks[1])], noreply=_noreply(toks, 2)))
        elif verb in (b"incr", b"decr"):
            if len(toks) < 3:
                raise ParseError("incr without value")
            out.append(Cmd(verb, [_key(toks[1])], value=_uint(toks[2], U64, "delta"), noreply=_noreply(toks, 3)))
        elif verb == b"touch":
            if len(toks) < 3:
                raise ParseError("touch without exptime")
            out.append(Cmd(verb, [_key(toks[1])], exptime=_int(toks[2], "exptime"), noreply=_noreply(toks, 3)))
        elif verb == b"flush_all":
            rest = toks[1:]
            nr = False
            if rest and rest[-1] == b"noreply":
                nr = True
                rest = rest[:-1]
            if len(rest) > 1:
                raise ParseError("flush_all: too many tokens")
            delay = _int(rest[0], "delay") if rest else None
            if delay is not None and delay < 0:
                raise ParseError("negative delay")
            out.append(Cmd(verb, exptime=delay, noreply=nr))
        elif verb in (b"version", b"quit"):
            if len(toks) != 1:
                raise ParseError("%r takes no arguments" % verb)
            out.append(Cmd(verb))
        elif verb == b"stats":
            out.append(Cmd(verb, args=toks[1:]))
        elif verb == b"shutdown":
            if toks[1:] not in ([], [b"graceful"]):
                raise ParseError("bad shutdown")
            out.append(Cmd(verb, args=toks[1:]))
        elif verb == b"cache_memlimit":
            if len(toks) < 2:
                raise ParseError("cache_memlimit without value")
            out.append(Cmd(verb, value=_uint(toks[1], U64, "memlimit"), noreply=_noreply(toks, 2)))
        elif verb == b"config":
            if toks[1:] != [b"get", b"cluster"]:
                raise ParseError("unsupported config command")
            out.append(Cmd(verb, args=toks[1:]))
        else:
            raise ParseError("unknown verb %r" % verb)
    return out


def build(c):
    """canonical wire form of a well-formed command"""
    nr = b" noreply" if c.noreply else b""
    v = c.verb
    if v in STORE or v == b"cas":
        head = v + b" " + c.keys[0] + b" %d %d %d" % (c.flags, c.exptime, len(c.data))
        if v == b"cas":
            head += b" %d" % c.cas
        return head + nr + b"\r\n" + c.data + b"\r\n"
    if v in (b"get", b"gets"):
        return v + b" " + b" ".join(c.keys) + b"\r\n"
    if v in (b"gat", b"gats"):
        return v + b" %d " % c.exptime + b" ".join(c.keys) + b"\r\n"
    if v == b"delete":
        return v + b" " + c.keys[0] + nr + b"\r\n"
    if v in (b"incr", b"decr"):
        return v + b" " + c.keys[0] + b" %d" % c.value + nr + b"\r\n"
    if v == b"touch":
        return v + b" " + c.keys[0] + b" %d" % c.exptime + nr + b"\r\n"
    if v == b"flush_all":
        return v + (b" %d" % c.exptime if c.exptime is not None else b"") + nr + b"\r\n"
    if v in (b"stats", b"shutdown", b"config"):
        return b" ".join((v,) + c.args) + b"\r\n"
    if v == b"cache_memlimit":
        return v + b" %d" % c.value + nr + b"\r\n"
    return v + b"\r\n"


def selftest():
    import random
    rnd = random.Random(7)
    n = 0

    def rkey():
        return bytes(rnd.choice([b for b in range(256) if b not in BAD_KEY]) for _ in range(rnd.randrange(1, 8)))

    def rdata():
        return bytes(rnd.choice(b"\r\n ENDVALUEa\x00\xff") for _ in range(rnd.randrange(0, 12)))

    for _ in range(600):
        cmds = []
        for _ in range(rnd.randrange(1, 4)):
            k = rnd.randrange(9)
            nr = rnd.random() < 0.5
            ex = rnd.choice([0, -1, 5, I64[0], I64[1], 2592001])
            if k == 0:
                cmds.append(Cmd(rnd.choice(STORE), [rkey()], flags=rnd.choice([0, 1, U32]), exptime=ex, data=rdata(), noreply=nr))
            elif k == 1:
                cmds.append(Cmd(b"cas", [rkey()], flags=3, exptime=ex, data=rdata(), cas=rnd.choice([0, 7, U64]), noreply=nr))
            elif k == 2:
                cmds.append(Cmd(rnd.choice([b"get", b"gets"]), [rkey() for _ in range(rnd.randrange(1, 4))]))
            elif k == 3:
                cmds.append(Cmd(rnd.choice([b"gat", b"gats"]), [rkey() for _ in range(rnd.randrange(1, 3))], exptime=ex))
            elif k == 4:
                cmds.append(Cmd(b"delete", [rkey()], noreply=nr))
            elif k == 5:
                cmds.append(Cmd(rnd.choice([b"incr", b"decr"]), [rkey()], value=rnd.choice([0, 1, U64]), noreply=nr))
            elif k == 6:
                cmds.append(Cmd(b"touch", [rkey()], exptime=ex, noreply=nr))
            elif k == 7:
                cmds.append(Cmd(b"flush_all", exptime=rnd.choice([None, 0, 9]), noreply=nr))
            else:
                cmds.append(Cmd(rnd.choice([b"version", b"quit"])))
        wire = b"".join(build(c) for c in cmds)
        assert parse(wire) == cmds, wire
        n += 1
    bad = [b"get  a\r\n", b"get a \r\n", b" get a\r\n", b"get\r\n", b"get a\n", b"set a 0 0 1\r\nxy\r\n", b"set a 0 0 2\r\nx\r\n",
           b"set a -1 0 1\r\nx\r\n", b"set a 0 0 01\r\nx\r\n", b"set a 4294967296 0 1\r\nx\r\n", b"set a\tb 0 0 1\r\nx\r\n",
           b"delete a noreply x\r\n", b"incr a -1\r\n", b"incr a 18446744073709551616\r\n", b"touch a 9223372036854775808\r\n",
           b"get " + b"k" * 251 + b"\r\n", b"get a\x00b\r\n", b"set a 0 0 1 noreply \r\nx\r\n", b"get a\r\nGARBAGE", b"bogus\r\n",
           b"set a 0 +5 1\r\nx\r\n", b"flush_all -1\r\n", b"get \r\n", b"get a\x0bb\r\n"]
    for w in bad:
        try:
            parse(w)
        except ParseError:
            n += 1
        else:
            raise AssertionError("strict parser accepted %r" % w)
    return "%d round-trips / rejections ok" % n
