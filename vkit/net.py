"""NetSim: the object handed to pymemcache as `socket_module`.

It creates SimSocket objects, connects them to RefServer instances, logs every socket-level event with a global
sequence number, delivers reply bytes according to a delivery policy (cuts, receive size, EINTR) and injects
faults from a FaultPlan.  Every reply byte is tagged with the id of the API call whose command produced it;
monitors record ownership / blocking / leak violations in `net.violations` (they never raise by themselves).
"""
import errno
import socket as _socket

try:
    from crosshair.tracers import NoTracing, is_tracing
except Exception:  # plain interpreter (replay)
    NoTracing = None

    def is_tracing():
        return False


class _Null:
    def __enter__(self):
        return self

    def __exit__(self, *a):
        return False


def notrace():
    """run a block untraced under CrossHair (only for fully concrete data); no-op otherwise"""
    if NoTracing is not None and is_tracing():
        return NoTracing()
    return _Null()


# fault kinds --------------------------------------------------------------------------------------------
# socket-level (may strike at any socket call)
F_NONE, F_TIMEOUT, F_RESET, F_EOF, F_OSERROR, F_REFUSED = 0, 1, 2, 3, 4, 5
# server-level (replace a whole reply)
R_ERROR, R_CLIENT_ERROR, R_SERVER_ERROR, R_GARBAGE, R_TRUNCATED = 6, 7, 8, 9, 10
SOCKET_FAULTS = (F_TIMEOUT, F_RESET, F_EOF, F_OSERROR)
REPLY_FAULTS = (R_ERROR, R_CLIENT_ERROR, R_SERVER_ERROR, R_GARBAGE, R_TRUNCATED)
FAULT_NAMES = {0: "none", 1: "timeout", 2: "reset", 3: "eof", 4: "oserror", 5: "refused", 6: "ERROR", 7: "CLIENT_ERROR",
               8: "SERVER_ERROR", 9: "garbage", 10: "truncated"}


class Interrupt(BaseException):
    """a gevent-style asynchronous exception (not an Exception subclass)"""


class FaultPlan:
    """one fault: `at` = index of the counted socket call (connect/sendall/recv) at which a socket-level fault
    strikes, or index of the command (counted over the whole history) whose reply a server-level fault replaces.
    `at` and `kind` may be symbolic ints."""

    def __init__(self, at=-1, kind=F_NONE, exc=None, after=False):
        self.at = at
        self.kind = kind
        self.exc = exc      # for C10: an exception *instance factory* raised instead of the socket error
        self.after = after  # C10: the interruption arrives after the socket call took effect (bytes sent / consumed)
        self.pending = None
        self.fired = False
        self.fired_where = None


class Conn:
    """server side of one connection: queue of [bytes, owner] segments"""

    def __init__(self, server):
        self.server = server
        self.queue = []
        self.eof = False           # server closed after the queued bytes
        self.delivered = 0         # bytes of the current call's reply stream delivered so far


class SimSocket:
    def __init__(self, net, family, socktype, proto, sid):
        self.net = net
        self.family = family
        self.sid = sid
        self.open = True
        self.connected = False
        self.timeout = "unset"
        self.timeout_at_connect = "never-connected"
        self.conn = None
        self.addr = None
        self.opts = []
        self.tls = False
        self.failed_call = False   # a call raised while using this socket (C09)
        net.sockets.append(self)
        net._log(self, "socket", (family, socktype, proto))

    # -- configuration
    def settimeout(self, t):
        self.net._log(self, "settimeout", t)
        self.net._env_fault("settimeout", self)
        self.timeout = t

    def setsockopt(self, *a):
        self.net._log(self, "setsockopt", a)
        self.net._env_fault("setsockopt", self)
        self.opts.append(a)

    def connect(self, addr):
        net = self.net
        net._log(self, "connect", addr)
        if not self.open:
            net.violations.append("connect on a closed socket %d" % self.sid)
        self.timeout_at_connect = self.timeout
        net._env_fault("connect", self)
        k = net._socket_fault(self, "connect")
        if k != F_NONE:
            if k == F_TIMEOUT:
                raise _socket.timeout("timed out (injected at connect)")
            raise ConnectionRefusedError(errno.ECONNREFUSED, "injected at connect")
        server = net.resolve(addr)
        if server is not None and net.is_down(addr):
            server = None
        if server is None:
            raise ConnectionRefusedError(errno.ECONNREFUSED, "no server at %r" % (addr,))
        self.addr = addr
        self.conn = Conn(server)
        self.connected = True

    def close(self):
        net = self.net
        net._log(self, "close", None)
        strike = net._close_fault(self) if (net.count_close and self.open) else None
        if strike == "before":
            raise net.plan.exc()      # interrupted before the descriptor was released: the socket is still open
        if self.open:
            self.open = False
            net.closed_count[self.sid] = net.closed_count.get(self.sid, 0) + 1
        if strike == "after":
            raise net.plan.exc()
        net._env_fault("close", self)

    # -- data
    def sendall(self, data):
        net = self.net
        net._log(self, "sendall", data)
        self._usable("sendall")
        if net.down and net.is_down(self.addr):
            self.failed_call = True
            raise ConnectionResetError(errno.ECONNRESET, "server went away")
        if self.timeout != net.expect_io_timeout and net.expect_io_timeout != "any":
            net.violations.append("sendall under timeout %r, expected the I/O timeout %r" % (self.timeout, net.expect_io_timeout))
        if net.env_plan:
            try:
                net._env_fault("sendall", self)
            except BaseException:
                self.failed_call = True
                raise
        k = net._socket_fault(self, "sendall")
        if k != F_NONE:
            self.failed_call = True
            if k == F_TIMEOUT:
                raise _socket.timeout("timed out (injected at sendall)")
            if k == F_RESET or k == F_EOF:
                raise ConnectionResetError(errno.ECONNRESET, "injected at sendall")
            raise OSError(errno.EPIPE, "injected at sendall")
        net.sent.append((self.sid, net.current_call, data))
        if net.request_hook is not None:
            data = net.request_hook(data)   # C04: map a request carrying symbolic bytes to its concrete placeholder form
        conn = self.conn
        conn.delivered = 0
        if net.concrete:
            with notrace():
                replies = conn.server.handle(data)
        else:
            replies = conn.server.handle(data)
        for cmd, reply in replies:
            idx = net.ncmds
            net.ncmds += 1
            plan = net.plan
            if plan is not None and not plan.fired and plan.kind >= R_ERROR and idx == plan.at and (cmd is None or not cmd.noreply):
                plan.fired = True
                plan.fired_where = ("reply", idx)
                kind = plan.kind
                if kind == R_ERROR:
                    reply = b"ERROR\r\n"
                elif kind == R_CLIENT_ERROR:
                    reply = b"CLIENT_ERROR injected\r\n"
                elif kind == R_SERVER_ERROR:
                    reply = b"SERVER_ERROR injected\r\n"
                elif kind == R_GARBAGE:
                    reply = b"WHAT 7\r\n"
                else:
                    reply = reply[: len(reply) // 2]
                    conn.queue.append([reply, net.current_call])
                    conn.eof = True
                    break
            if len(reply):
                if net.reply_hook is not None:
                    reply = net.reply_hook(reply)
                conn.queue.append([reply, net.current_call])
        if net.plan is not None and net.plan.pending is not None:
            exc, net.plan.pending = net.plan.pending, None
            raise exc()

    def recv(self, n):
        net = self.net
        net._log(self, "recv", n)
        self._usable("recv")
        if self.timeout != net.expect_io_timeout and net.expect_io_timeout != "any":
            net.violations.append("recv under timeout %r, expected the I/O timeout %r" % (self.timeout, net.expect_io_timeout))
        if net.noreply_call:
            net.violations.append("recv issued by a call that asked for noreply (call %d)" % net.current_call)
        if net.clock is not None:
            net.clock.advance(net.recv_delay)
        if net.eintr_at is not None and net.nrecv == net.eintr_at:
            net.nrecv += 1
            net.eintr_fired = True
            raise InterruptedError(errno.EINTR, "injected EINTR")
        net.nrecv += 1
        if net.env_plan:
            try:
                net._env_fault("recv", self)
            except BaseException:
                self.failed_call = True
                raise
        k = net._socket_fault(self, "recv")
        if k != F_NONE:
            self.failed_call = True
            if k == F_TIMEOUT:
                raise _socket.timeout("timed out (injected at recv)")
            if k == F_RESET:
                raise ConnectionResetError(errno.ECONNRESET, "injected at recv")
            if k == F_EOF:
                return b""
            raise OSError(errno.EIO, "injected at recv")
        conn = self.conn
        if not conn.queue:
            if conn.eof:
                return b""
            net.violations.append("call %d waits for a reply that will never come (recv with nothing in flight)"
                                  % net.current_call)
            self.failed_call = True
            raise _socket.timeout("nothing to read (would block forever)")
        seg = conn.queue[0]
        data, owner = seg
        if owner != net.current_call:
            net.violations.append("call %d read bytes that answer call %d" % (net.current_call, owner))
        k = len(data)
        if n < k:
            k = n
        for c in net.cuts:
            d = c - conn.delivered
            if 0 < d and d < k:
                k = d
        out = data[:k]
        if k == len(data):
            conn.queue.pop(0)
        else:
            seg[0] = data[k:]
        conn.delivered += k
        net.delivered_total += k
        if net.plan is not None and net.plan.pending is not None:
            exc, net.plan.pending = net.plan.pending, None
            raise exc()     # the bytes were consumed from the connection but never reached the caller
        return out

    def _usable(self, what):
        if not self.open:
            self.net.violations.append("%s on closed socket %d" % (what, self.sid))
        if not self.connected:
            self.net.violations.append("%s on unconnected socket %d" % (what, self.sid))
        if self.failed_call and self.net.check_failed_reuse:
            self.net.violations.append("%s on socket %d on which an earlier call failed" % (what, self.sid))
        if self.net.tls_expected and not self.tls:
            self.net.violations.append("%s bypasses the TLS wrapper" % what)


class TLSSocket(SimSocket):
    """what the stub SSLContext.wrap_socket returns: same transport, flagged as wrapped"""


class TLSContext:
    def __init__(self, net):
        self.net = net

    def wrap_socket(self, sock, server_hostname=None):
        self.net._log(sock, "wrap_socket", server_hostname)
        self.net._env_fault("wrap_socket", sock)
        sock.tls = True
        sock.__class__ = TLSSocket
        return sock


class NetSim:
    # constants pymemcache reads from the socket module
    AF_UNIX, AF_INET, AF_INET6, AF_UNSPEC = 1, 2, 10, 0
    SOCK_STREAM, IPPROTO_TCP, TCP_NODELAY, SOL_SOCKET, SO_KEEPALIVE = 1, 6, 1, 1, 9
    TCP_KEEPIDLE, TCP_KEEPINTVL, TCP_KEEPCNT = 4, 5, 6
    timeout = _socket.timeout
    error = OSError
    gaierror = _socket.gaierror

    def __init__(self, servers=None, plan=None, cuts=(), concrete=True, addresses=None):
        self.servers = servers or {}      # address -> RefServer ; address = (host, port) or unix path
        self.plan = plan
        self.cuts = tuple(cuts)
        self.concrete = concrete          # all wire data concrete: the server stub may run untraced
        self.addresses = addresses or {}  # host -> list of resolved sockaddr (default: one, (host, port))
        self.sockets = []
        self.events = []
        self.violations = []
        self.sent = []
        self.closed_count = {}
        self.seq = 0
        self.ncalls = 0                   # counted socket calls (connect/sendall/recv)
        self.count_close = False          # C10: close() of an open socket is counted (and interruptible) as well
        self.ncmds = 0
        self.nrecv = 0
        self.delivered_total = 0
        self.current_call = 0
        self.noreply_call = False
        self.eintr_at = None
        self.eintr_fired = False
        self.expect_io_timeout = "any"
        self.check_failed_reuse = False
        self.tls_expected = False
        self.recv_delay = 0               # C09: every recv advances `self.clock` by this much (calls take time)
        self.clock = None
        self.down = set()                 # addresses whose server currently refuses/reset connections
        self.request_hook = None
        self.reply_hook = None            # C03/C04: splice symbolic bytes into the concrete reply
        self.env_plan = None              # C06: (event name, occurrence index, exception) environment faults
        self.env_counts = {}
        self.env_fired = []

    # -- module-level API used by pymemcache
    def getaddrinfo(self, host, port, family=0, socktype=0, proto=0, flags=0):
        self._log(None, "getaddrinfo", (host, port))
        self._env_fault("getaddrinfo", None)
        addrs = self.addresses.get(host)
        if addrs is None:
            addrs = [(self.AF_INET, (host, port))]
        return [(fam, self.SOCK_STREAM, self.IPPROTO_TCP, "", sa) for fam, sa in addrs]

    def socket(self, family=2, socktype=1, proto=0):
        self._log(None, "socket()", (family, socktype, proto))
        self._env_fault("socket", None)
        return SimSocket(self, family, socktype, proto, len(self.sockets))

    # -- helpers
    def resolve(self, addr):
        if addr in self.servers:
            return self.servers[addr]
        if isinstance(addr, tuple) and len(addr) >= 2:
            port = addr[1]
            if isinstance(port, str) and port.isdigit():
                port = int(port)      # getaddrinfo accepts a decimal string as service
            return self.servers.get((addr[0], port))
        return None

    def is_down(self, addr):
        if isinstance(addr, tuple) and len(addr) >= 2 and isinstance(addr[1], str) and addr[1].isdigit():
            addr = (addr[0], int(addr[1]))
        return addr in self.down

    def begin_call(self, call_id, noreply=False):
        self.current_call = call_id
        self.noreply_call = noreply

    def _log(self, sock, op, detail):
        self.seq += 1
        self.events.append((self.seq, None if sock is None else sock.sid, op, detail))
        open_now = 0
        for s in self.sockets:
            if s.open:
                open_now += 1
        if open_now > self.max_open_allowed():
            self.violations.append("%d sockets open at once (event %s)" % (open_now, op))

    def max_open_allowed(self):
        return getattr(self, "max_open", 10 ** 9)

    def _socket_fault(self, sock, where):
        """-> fault kind striking at this counted socket call (F_NONE if none)"""
        idx = self.ncalls
        self.ncalls += 1
        plan = self.plan
        if plan is None or plan.fired:
            return F_NONE
        if plan.kind < F_TIMEOUT or plan.kind >= R_ERROR:
            return F_NONE
        if idx == plan.at:
            plan.fired = True
            plan.fired_where = (where, idx)
            if plan.exc is not None:
                sock.failed_call = True
                if plan.after and where in ("sendall", "recv"):
                    plan.pending = plan.exc
                    return F_NONE
                raise plan.exc()
            return plan.kind
        return F_NONE

    def _close_fault(self, sock):
        """C10: close() of an open socket is a counted socket call too, and an interruption can strike in it"""
        plan = self.plan
        idx = self.ncalls
        self.ncalls += 1
        if plan is None or plan.fired or plan.exc is None:
            return None
        if idx == plan.at:
            plan.fired = True
            plan.fired_where = ("close", idx)
            sock.failed_call = True
            return "after" if plan.after else "before"
        return None

    def _env_fault(self, name, sock):
        ep = self.env_plan
        if not ep:
            return
        n = self.env_counts.get(name, 0)
        self.env_counts[name] = n + 1
        for (ename, occ, exc) in ep:
            if ename == name and occ == n:
                self.env_fired.append((name, n))
                raise exc

    def open_sockets(self):
        return [s for s in self.sockets if s.open]

    def leftover(self, call_id=None):
        """bytes still queued on connections whose client side is open (unread replies)"""
        total = 0
        for s in self.sockets:
            if s.open and s.conn is not None:
                for data, owner in s.conn.queue:
                    if call_id is None or owner == call_id:
                        total += len(data)
        return total
