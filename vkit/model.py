"""API-level abstract model of "memcached seen through pymemcache": a map with expiry and cas versions.

Written independently of vkit/refserver.py (which works on wire commands): this model is stated in terms of the
documented return values of the client API.  Time is an integer supplied by the caller.
"""

THIRTY_DAYS = 60 * 60 * 24 * 30
U64 = 2 ** 64


class NonNumeric(Exception):
    """incr/decr on a value that is not a decimal number: the client raises MemcacheClientError"""


class Entry:
    def __init__(self, value, expire_at, version):
        self.value, self.expire_at, self.version = value, expire_at, version


class Model:
    def __init__(self):
        self.d = {}
        self.now = 0
        self.versions = 0

    # ---- helpers
    def _deadline(self, expire):
        if expire == 0:
            return None
        if expire < 0:
            return self.now            # already expired
        if expire > THIRTY_DAYS:
            return expire              # absolute
        return self.now + expire

    def _live(self, k):
        e = self.d.get(k)
        if e is None:
            return None
        if e.expire_at is not None and e.expire_at <= self.now:
            del self.d[k]
            return None
        return e

    def _put(self, k, v, expire):
        self.versions += 1
        self.d[k] = Entry(v, self._deadline(expire), self.versions)

    def value(self, k):
        e = self._live(k)
        return None if e is None else e.value

    # ---- operations: each returns the value the documented contract promises when a reply is read
    def set(self, k, v, expire=0):
        self._put(k, v, expire)
        return True

    def add(self, k, v, expire=0):
        if self._live(k) is not None:
            return False
        self._put(k, v, expire)
        return True

    def replace(self, k, v, expire=0):
        if self._live(k) is None:
            return False
        self._put(k, v, expire)
        return True

    def append(self, k, v):
        e = self._live(k)
        if e is None:
            return False
        self.versions += 1
        e.value, e.version = e.value + v, self.versions
        return True

    def prepend(self, k, v):
        e = self._live(k)
        if e is None:
            return False
        self.versions += 1
        e.value, e.version = v + e.value, self.versions
        return True

    def cas(self, k, v, version, expire=0):
        e = self._live(k)
        if e is None:
            return None
        if e.version != version:
            return False
        self._put(k, v, expire)
        return True

    def get(self, k):
        return self.value(k)

    def gets(self, k):
        e = self._live(k)
        return (None, None) if e is None else (e.value, e.version)

    def gat(self, k, expire):
        e = self._live(k)
        if e is None:
            return None
        e.expire_at = self._deadline(expire)
        return e.value

    def touch(self, k, expire):
        e = self._live(k)
        if e is None:
            return False
        e.expire_at = self._deadline(expire)
        return True

    def delete(self, k):
        if self._live(k) is None:
            return False
        del self.d[k]
        return True

    def _arith(self, k, delta, sign):
        e = self._live(k)
        if e is None:
            return None
        text = e.value.rstrip(b" ")
        if not text.isdigit() or len(e.value) > 20:
            raise NonNumeric()
        cur = int(text)
        new = (cur + delta) % U64 if sign > 0 else max(0, cur - delta)
        out = b"%d" % new
        self.versions += 1
        # memcached rewrites in place and pads with spaces when the new text is not longer than the old one
        e.value = out + b" " * (len(e.value) - len(out)) if len(out) <= len(e.value) else out
        e.version = self.versions
        return new

    def incr(self, k, delta):
        return self._arith(k, delta, +1)

    def decr(self, k, delta):
        return self._arith(k, delta, -1)

    def flush_all(self):
        self.d.clear()
        return True
