"""One CrossHair analysis = one process.  python3-vt -m vkit.chworker <json-job>

job = {"module": "harness.C20", "fn": "h_bytes", "shard": {...}, "timeout": 60, "twin": false, "seed": 0}

Prints one JSON line prefixed with "RESULT " describing CrossHair's verdict for the harness
function in that shard:
   status: confirmed | refuted | unknown | pre_unsat | error
   counterexample: text of CrossHair's message (refuted)
   paths, cpu_s, realizations{int,other}, counts (harness counters), cases
"""
import json
import os
import sys
import time
import types
import importlib
import random


def make_twin(fn):
    """same body, final assertion replaced: the twin must come back REFUTED (a path reaches OK)"""
    import inspect
    import linecache
    import textwrap
    src = textwrap.dedent(inspect.getsource(fn))
    assert "post: _ != 0" in src, "harness must declare `post: _ != 0`"
    src = src.replace("post: _ != 0", "post: _ != 2")
    fname = "<twin:%s.%s>" % (fn.__module__, fn.__name__)
    lines = src.splitlines(True)
    linecache.cache[fname] = (len(src), None, lines, fname)
    ns = fn.__globals__
    saved = ns.get(fn.__name__)
    exec(compile(src, fname, "exec"), ns)
    twin = ns[fn.__name__]
    ns[fn.__name__] = saved
    return twin


def main():
    job = json.loads(sys.argv[1])
    os.environ["VERIF_SHARD"] = json.dumps(job.get("shard", {}))
    os.environ["VERIF_UNDER_CROSSHAIR"] = "1"
    seed = int(job.get("seed", 0))
    random.seed(seed)
    t0 = time.time()
    c0 = time.process_time()
    import crosshair.core_and_libs as CL
    from crosshair.options import AnalysisOptionSet, AnalysisKind
    from crosshair.core import MessageType
    from crosshair import statespace as SS
    import z3
    from vkit import ch_models, stats
    ch_models.install()

    real = {"int": 0, "other": 0}
    _orig_fmv = SS.StateSpace.find_model_value

    def fmv(self, expr, *a, **k):
        try:
            if z3.is_int(expr) or z3.is_bool(expr) or z3.is_real(expr):
                real["int"] += 1
            else:
                real["other"] += 1
        except Exception:
            real["other"] += 1
        return _orig_fmv(self, expr, *a, **k)

    SS.StateSpace.find_model_value = fmv

    mod = importlib.import_module(job["module"])
    fn = getattr(mod, job["fn"])
    if job.get("twin"):
        fn = make_twin(fn)
    import collections
    ctr = collections.Counter()
    opts = AnalysisOptionSet(
        analysis_kind=[AnalysisKind.PEP316],
        per_condition_timeout=float(job.get("timeout", 30)),
        per_path_timeout=float(job["per_path_timeout"]) if job.get("per_path_timeout") else None,
        report_all=True,
        stats=ctr,
    )
    stats.reset()
    checkables = CL.analyze_function(fn, opts)
    out = {"module": job["module"], "fn": job["fn"], "shard": job.get("shard", {}), "twin": bool(job.get("twin"))}
    if not checkables:
        out.update(status="error", message="no conditions found")
    else:
        msgs = CL.run_checkables(checkables)
        st = "unknown"
        text = ""
        for m in msgs:
            if m.state == MessageType.CONFIRMED:
                st = "confirmed"
            elif m.state == MessageType.CANNOT_CONFIRM:
                st = "unknown"
            elif m.state == MessageType.PRE_UNSAT:
                st = "pre_unsat"
                text = m.message
            elif m.state == MessageType.POST_FAIL:
                st = "refuted"
                text = m.message
                break
            elif m.state in tuple(getattr(MessageType, n) for n in ("EXEC_ERR", "POST_ERR", "SYNTAX_ERR", "IMPORT_ERR")
                                  if hasattr(MessageType, n)):
                st = "error"
                text = m.message + "\n" + (m.traceback or "")
                break
        out.update(status=st, message=text)
    out.update(
        paths=int(ctr.get("num_paths", 0)),
        cpu_s=round(time.process_time() - c0, 2),
        wall_s=round(time.time() - t0, 2),
        realizations=real,
        counts=dict(stats.COUNTS),
        cases=sorted(stats.CASES)[:400],
        ncases=len(stats.CASES),
        budget_s=float(job.get("timeout", 30)),
    )
    # "unknown" well before the budget ended means some path could not be decided (unsupported operation,
    # solver unknown): the search stopped as "exhausted with UNKNOWN"
    out["undecided_path"] = out["status"] == "unknown" and (time.process_time() - c0) < 0.8 * float(job.get("timeout", 30))
    print("RESULT " + json.dumps(out), flush=True)


if __name__ == "__main__":
    main()
