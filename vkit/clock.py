"""Virtual clock substituted (inside the checking process only) for the `time` module attribute of
pymemcache.client.hash / pymemcache.pool / aws_ec_client.  The code under analysis only calls time.time()."""


class Clock:
    def __init__(self, now=0):
        self.now = now

    def time(self):
        return self.now

    def advance(self, d):
        self.now = self.now + d


def install(clock=None):
    clock = clock or Clock()
    import pymemcache.client.hash as H
    import pymemcache.pool as P
    H.time = clock
    P.time = clock
    try:
        import pymemcache.client.ext.aws_ec_client as A
        A.time = clock
    except Exception:
        pass
    return clock
