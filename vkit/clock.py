"""Virtual clock substituted (inside the checking process only) for the `time` module attribute of
pymemcache.client.hash / pymemcache.pool / aws_ec_client.  The code under analysis only calls time.time()."""


class Clock:
    def __init__(self, now=0):
        self.now = now

    def time(self):
        return self.now

    def advance(self, d):
        self.now = self.now + d


_CURRENT = [None]


def fresh(now=0):
    """install a new clock (call at the start of every path: clock state must not leak between paths)"""
    return install(Clock(now))


def install(clock=None):
    """install `clock`; without an argument keep the clock that is already installed (or create one)"""
    if clock is None:
        clock = _CURRENT[0] or Clock()
    _CURRENT[0] = clock
    import pymemcache.client.hash as H
    import pymemcache.pool as P
    H.time = clock
    P.time = clock
    try:
        import pymemcache.client.ext.aws_ec_client as A
        A.time = clock
    except Exception:
        pass
    return clock
