"""A faithful in-process model of memcached's text protocol (server side).

handle(wire) parses what the client sent with the independent strict grammar (vkit/strict.py) and returns one
(Cmd, reply-bytes) pair per command, in order; `noreply` commands take effect and produce an empty reply.
Time is a virtual clock (`clock.now`, any number type that supports + and <=).
"""
from vkit import strict

THIRTY_DAYS = 60 * 60 * 24 * 30
U64 = 2 ** 64


class Item:
    __slots__ = ("value", "flags", "expire_at", "cas", "stored_at")

    def __init__(self, value, flags, expire_at, cas, stored_at):
        self.value, self.flags, self.expire_at, self.cas, self.stored_at = value, flags, expire_at, cas, stored_at


class Clock:
    def __init__(self, now=1000):
        self.now = now


class RefServer:
    def __init__(self, clock=None, name="s", version=b"1.6.21", cluster_config=None):
        self.clock = clock or Clock()
        self.name = name
        self.items = {}
        self.cas_counter = 0
        self.flush_at = None
        self.cmdlog = []          # every parsed command, in order
        self.protocol_errors = []  # what the strict parser refused
        self.version = version
        self.cluster_config = cluster_config  # (version:int, text) for `config get cluster`

    # ---------------------------------------------------------------- item access
    def _expiry(self, exptime):
        if exptime == 0:
            return None
        if exptime < 0:
            return self.clock.now  # immediately expired (expired when now >= expire_at)
        if exptime > THIRTY_DAYS:
            return exptime          # absolute time
        return self.clock.now + exptime

    def _live(self, key):
        it = self.items.get(key)
        if it is None:
            return None
        now = self.clock.now
        if it.expire_at is not None and it.expire_at <= now:
            del self.items[key]
            return None
        if self.flush_at is not None and self.flush_at <= now and it.stored_at < self.flush_at:
            del self.items[key]
            return None
        return it

    def _store(self, key, value, flags, exptime):
        self.cas_counter += 1
        self.items[key] = Item(value, flags, self._expiry(exptime), self.cas_counter, self.clock.now)

    def peek(self, key):
        """(value, flags) of a live item or None - for oracles; does not count as a command"""
        it = self._live(key)
        return None if it is None else (it.value, it.flags)

    # ---------------------------------------------------------------- protocol
    def handle(self, wire):
        try:
            cmds = strict.parse(wire)
        except strict.ParseError as e:
            self.protocol_errors.append((wire, str(e)))
            return [(None, b"ERROR\r\n")]
        out = []
        for c in cmds:
            self.cmdlog.append(c)
            r = self._exec(c)
            out.append((c, b"" if c.noreply else r))
        return out

    def _exec(self, c):
        v = c.verb
        if v in strict.STORE or v == b"cas":
            key = c.keys[0]
            it = self._live(key)
            if v == b"set":
                self._store(key, c.data, c.flags, c.exptime)
                return b"STORED\r\n"
            if v == b"add":
                if it is not None:
                    return b"NOT_STORED\r\n"
                self._store(key, c.data, c.flags, c.exptime)
                return b"STORED\r\n"
            if v == b"replace":
                if it is None:
                    return b"NOT_STORED\r\n"
                self._store(key, c.data, c.flags, c.exptime)
                return b"STORED\r\n"
            if v in (b"append", b"prepend"):
                if it is None:
                    return b"NOT_STORED\r\n"
                it.value = it.value + c.data if v == b"append" else c.data + it.value
                self.cas_counter += 1
                it.cas = self.cas_counter
                return b"STORED\r\n"
            if it is None:
                return b"NOT_FOUND\r\n"
            if it.cas != c.cas:
                return b"EXISTS\r\n"
            self._store(key, c.data, c.flags, c.exptime)
            return b"STORED\r\n"
        if v in (b"get", b"gets", b"gat", b"gats"):
            parts = []
            for key in c.keys:
                it = self._live(key)
                if it is None:
                    continue
                if v in (b"gat", b"gats"):
                    it.expire_at = self._expiry(c.exptime)
                head = b"VALUE " + key + b" %d %d" % (it.flags, len(it.value))
                if v in (b"gets", b"gats"):
                    head += b" %d" % it.cas
                parts.append(head + b"\r\n" + it.value + b"\r\n")
            return b"".join(parts) + b"END\r\n"
        if v == b"delete":
            if self._live(c.keys[0]) is None:
                return b"NOT_FOUND\r\n"
            del self.items[c.keys[0]]
            return b"DELETED\r\n"
        if v in (b"incr", b"decr"):
            it = self._live(c.keys[0])
            if it is None:
                return b"NOT_FOUND\r\n"
            if not (len(it.value) <= 20 and it.value.rstrip(b" ").isdigit() and it.value[:1].isdigit()):
                return b"CLIENT_ERROR cannot increment or decrement non-numeric value\r\n"
            cur = int(it.value.rstrip(b" "))
            new = (cur + c.value) % U64 if v == b"incr" else max(0, cur - c.value)
            text = b"%d" % new
            # memcached rewrites in place and pads with spaces when the new text is not longer
            it.value = text + b" " * (len(it.value) - len(text)) if len(text) <= len(it.value) else text
            self.cas_counter += 1
            it.cas = self.cas_counter
            return text + b"\r\n"
        if v == b"touch":
            it = self._live(c.keys[0])
            if it is None:
                return b"NOT_FOUND\r\n"
            it.expire_at = self._expiry(c.exptime)
            return b"TOUCHED\r\n"
        if v == b"flush_all":
            delay = c.exptime or 0
            self.flush_at = self.clock.now + delay
            if delay == 0:
                self.items.clear()
            return b"OK\r\n"
        if v == b"version":
            return b"VERSION " + self.version + b"\r\n"
        if v == b"stats":
            return (b"STAT pid 4242\r\nSTAT version " + self.version + b"\r\nSTAT curr_items %d\r\nSTAT evictions 0\r\n"
                    % len(self.items) + b"END\r\n")
        if v == b"cache_memlimit":
            return b"OK\r\n"
        if v == b"config":
            if self.cluster_config is None:
                return b"ERROR\r\n"
            ver, text = self.cluster_config
            body = b"%d\n" % ver + text + b"\n"
            return b"CONFIG cluster 0 %d\r\n" % len(body) + body + b"\r\nEND\r\n"
        if v == b"quit":
            return b""
        if v == b"shutdown":
            return b"ERROR: shutdown not enabled\r\n"
        return b"ERROR\r\n"


def selftest():
    s = RefServer()
    n = 0

    def t(wire, want):
        nonlocal n
        got = b"".join(r for _, r in s.handle(wire))
        assert got == want, (wire, got, want)
        n += 1

    t(b"get a\r\n", b"END\r\n")
    t(b"set a 5 0 3\r\nfoo\r\n", b"STORED\r\n")
    t(b"get a b\r\n", b"VALUE a 5 3\r\nfoo\r\nEND\r\n")
    t(b"gets a\r\n", b"VALUE a 5 3 1\r\nfoo\r\nEND\r\n")
    t(b"add a 0 0 1\r\nx\r\n", b"NOT_STORED\r\n")
    t(b"replace b 0 0 1\r\nx\r\n", b"NOT_STORED\r\n")
    t(b"append a 0 0 1\r\n!\r\n", b"STORED\r\n")
    t(b"prepend a 0 0 1\r\n>\r\n", b"STORED\r\n")
    t(b"get a\r\n", b"VALUE a 5 5\r\n>foo!\r\nEND\r\n")
    t(b"cas a 0 0 1 1\r\ny\r\n", b"EXISTS\r\n")
    t(b"cas a 0 0 1 3\r\ny\r\n", b"STORED\r\n")
    t(b"cas zz 0 0 1 3\r\ny\r\n", b"NOT_FOUND\r\n")
    t(b"set n 0 0 2\r\n10\r\n", b"STORED\r\n")
    t(b"incr n 5\r\n", b"15\r\n")
    t(b"decr n 9\r\n", b"6\r\n")
    t(b"get n\r\n", b"VALUE n 0 2\r\n6 \r\nEND\r\n")
    t(b"decr n 100\r\n", b"0\r\n")
    t(b"incr a 1\r\n", b"CLIENT_ERROR cannot increment or decrement non-numeric value\r\n")
    t(b"incr nope 1\r\n", b"NOT_FOUND\r\n")
    t(b"set w 0 0 20\r\n18446744073709551615\r\n", b"STORED\r\n")
    t(b"incr w 1\r\n", b"0\r\n")
    t(b"set e 0 10 1\r\nz\r\n", b"STORED\r\n")
    s.clock.now += 9
    t(b"get e\r\n", b"VALUE e 0 1\r\nz\r\nEND\r\n")
    t(b"touch e 100\r\n", b"TOUCHED\r\n")
    s.clock.now += 50
    t(b"gat 1 e\r\n", b"VALUE e 0 1\r\nz\r\nEND\r\n")
    s.clock.now += 1
    t(b"get e\r\n", b"END\r\n")
    t(b"touch e 1\r\n", b"NOT_FOUND\r\n")
    t(b"set q 0 -1 1\r\nz\r\n", b"STORED\r\n")
    t(b"get q\r\n", b"END\r\n")
    t(b"delete a\r\n", b"DELETED\r\n")
    t(b"delete a\r\n", b"NOT_FOUND\r\n")
    t(b"set a 0 0 1 noreply\r\nx\r\ndelete n noreply\r\nget a n\r\n", b"VALUE a 0 1\r\nx\r\nEND\r\n")
    t(b"flush_all 5\r\n", b"OK\r\n")
    t(b"get a\r\n", b"VALUE a 0 1\r\nx\r\nEND\r\n")
    s.clock.now += 5
    t(b"get a\r\n", b"END\r\n")
    t(b"set a 0 0 1\r\nx\r\n", b"STORED\r\n")
    t(b"get a\r\n", b"VALUE a 0 1\r\nx\r\nEND\r\n")
    t(b"flush_all\r\n", b"OK\r\n")
    t(b"get a\r\n", b"END\r\n")
    t(b"version\r\n", b"VERSION 1.6.21\r\n")
    t(b"get  a\r\n", b"ERROR\r\n")
    assert s.protocol_errors
    return "%d scripted request/reply pairs ok" % n
