"""Verification kit for pinterest/pymemcache: solver-based checking of the real code.

Nothing in here imports pymemcache at package-import time; every engine loads the
modules under analysis from /repo's working tree at the start of each run.
"""
