"""Engine C: interleavings of the real ObjectPool methods as schedulable generators.

build() re-parses pymemcache.pool.ObjectPool from /repo's working tree and mechanically rewrites
get / release / destroy / clear / get_and_release into generator functions that
  * yield ("step", lineno) after every simple statement (assignment, expression, augmented assignment): every deque
    operation, attribute store, after_remove call and lock transition is a possible switch point;
  * turn `with self._lock:` into a non-blocking acquire loop (yielding ("blocked",) while the lock is taken) plus
    try/finally release, on the lock object supplied through the public `lock_generator` seam;
  * turn calls between pool methods into `yield from`;
  * mark the context manager's own `yield obj` as ("CTX", obj) so that ctx_enter/ctx_exit (mirroring
    contextlib._GeneratorContextManager: next() on success, throw() on failure) can drive it.
Statements are otherwise unchanged and are executed by Python itself, so deque and exception semantics are real.
"""
import ast
import inspect
import textwrap

METHODS = {"get", "release", "destroy", "clear", "get_and_release"}


class Rewriter(ast.NodeTransformer):
    def visit_FunctionDef(self, node):
        if node.name not in METHODS:
            return node
        node.decorator_list = []
        node.body = self._block(node.body)
        node.body.insert(0, ast.parse("if False: yield").body[0])
        return node

    def _block(self, stmts):
        out = []
        for s in stmts:
            out.extend(self._stmt(s))
        return out

    def _stmt(self, s):
        if isinstance(s, ast.With) and any(self._is_lock(i.context_expr) for i in s.items):
            body = self._block(s.body)
            acquire = ast.parse("yield from __acquire__(self._lock)").body[0]
            tr = ast.Try(body=body or [ast.Pass()], handlers=[], orelse=[],
                         finalbody=ast.parse("self._lock.release()\nyield ('unlock',)").body)
            return [acquire, tr]
        for f in ("body", "orelse", "finalbody"):
            v = getattr(s, f, None)
            if isinstance(v, list) and v and isinstance(v[0], ast.stmt):
                setattr(s, f, self._block(v))
        if isinstance(s, ast.Try):
            for h in s.handlers:
                h.body = self._block(h.body)
        if (isinstance(s, ast.Expr) and isinstance(s.value, ast.Call) and isinstance(s.value.func, ast.Attribute)
                and s.value.func.attr == "acquire" and self._is_lock(s.value.func.value)):
            # an explicit blocking self._lock.acquire(): same non-blocking acquire loop as for `with self._lock`
            return [ast.parse("yield from __acquire__(self._lock)").body[0]]
        s = self._calls(s)
        if isinstance(s, (ast.Expr, ast.Assign, ast.AugAssign, ast.AnnAssign)):
            if isinstance(s, ast.Expr) and isinstance(s.value, ast.Yield):
                s.value = ast.Yield(value=ast.Tuple(elts=[ast.Constant("CTX"), s.value.value], ctx=ast.Load()))
                return [s]
            return [s, ast.parse("yield ('step', %d)" % s.lineno).body[0]]
        return [s]

    @staticmethod
    def _is_lock(e):
        return isinstance(e, ast.Attribute) and e.attr == "_lock"

    @staticmethod
    def _calls(s):
        class C(ast.NodeTransformer):
            def visit_Call(self, n):
                self.generic_visit(n)
                if (isinstance(n.func, ast.Attribute) and isinstance(n.func.value, ast.Name)
                        and n.func.value.id == "self" and n.func.attr in METHODS):
                    return ast.YieldFrom(value=n)
                return n
        for field, val in ast.iter_fields(s):
            if isinstance(val, ast.expr):
                setattr(s, field, C().visit(val))
        return s


def __acquire__(lock):
    while not lock.acquire(False):
        yield ("blocked",)
    yield ("acq",)


def build(source=None):
    """-> (generator-form ObjectPool class, rewritten source text)"""
    import pymemcache.pool as P
    src = textwrap.dedent(source if source is not None else inspect.getsource(P.ObjectPool))
    tree = ast.parse(src)
    Rewriter().visit(tree.body[0])
    ast.fix_missing_locations(tree)
    ns = dict(P.__dict__)
    ns["__acquire__"] = __acquire__
    exec(compile(tree, "<ilv:pymemcache/pool.py>", "exec"), ns)
    return ns["ObjectPool"], ast.unparse(tree)


class SimLock:
    def __init__(self):
        self.held = False

    def acquire(self, blocking=True):
        if self.held:
            return False
        self.held = True
        return True

    def release(self):
        if not self.held:
            raise RuntimeError("release unlocked lock")
        self.held = False

    def __enter__(self):
        if not self.acquire():
            raise RuntimeError("SimLock used blockingly while held")
        return self

    def __exit__(self, *a):
        self.release()


def ctx_enter(cm):
    """drive a rewritten get_and_release generator up to its marked yield; returns the yielded object"""
    for item in cm:
        if item[0] == "CTX":
            return item[1]
        yield item
    raise RuntimeError("generator didn't yield")


def ctx_exit(cm, exc):
    """leave the with-block: normally (exc None) or by exception, as contextlib does"""
    try:
        item = next(cm) if exc is None else cm.throw(exc)
        while True:
            if item[0] == "CTX":
                raise RuntimeError("generator didn't stop")
            yield item
            item = next(cm)
    except StopIteration:
        return


def run(gen):
    """run a generator to completion (sequential use of the rewritten class); returns its return value"""
    try:
        while True:
            next(gen)
    except StopIteration as e:
        return e.value


def selftest(seed=0):
    """the rewritten class, run to completion, behaves like the original on random sequential operation sequences"""
    import random
    import pymemcache.pool as P
    rnd = random.Random(seed)
    n = 0
    for trial in range(300):
        clock = [0]

        class T:
            @staticmethod
            def time():
                return clock[0]
        saved = P.time
        P.time = T
        G, _ = build()       # the rewritten class copies the module namespace: build after the clock is installed
        try:
            max_size = rnd.choice([1, 2, 3, None])
            idle = rnd.choice([0, 0, 2])
            made = [[], []]
            closed = [[], []]
            pools = []
            for w, cls in enumerate((P.ObjectPool, G)):
                def creator(w=w):
                    o = type("O", (), {})()
                    o.n = len(made[w])
                    made[w].append(o)
                    return o
                pools.append(cls(creator, after_remove=lambda o, w=w: closed[w].append(o.n), max_size=max_size,
                                 idle_timeout=idle, lock_generator=SimLock))
            held = [[], []]
            for step in range(rnd.randrange(1, 12)):
                op = rnd.choice(["get", "release", "destroy", "clear", "tick", "ctx_ok", "ctx_fail"])
                res = []
                for w, pool in enumerate(pools):
                    is_gen = w == 1
                    call = (lambda g: run(g)) if is_gen else (lambda v: v)
                    try:
                        if op == "get":
                            o = call(pool.get())
                            held[w].append(o)
                            res.append(("got", o.n))
                        elif op in ("release", "destroy") and held[w]:
                            o = held[w].pop(0)
                            call(getattr(pool, op)(o))
                            res.append((op, o.n))
                        elif op == "clear":
                            call(pool.clear())
                            res.append("cleared")
                        elif op == "tick":
                            res.append("tick")
                        elif op in ("ctx_ok", "ctx_fail"):
                            if is_gen:
                                cm = pool.get_and_release(destroy_on_fail=True)
                                o = run(ctx_enter(cm))
                                try:
                                    run(ctx_exit(cm, None if op == "ctx_ok" else OSError("x")))
                                except OSError:
                                    pass
                            else:
                                try:
                                    with pool.get_and_release(destroy_on_fail=True) as o:
                                        if op == "ctx_fail":
                                            raise OSError("x")
                                except OSError:
                                    pass
                            res.append(("ctx", o.n))
                        else:
                            res.append("noop")
                    except RuntimeError as e:
                        res.append(("RuntimeError", str(e)[:16]))
                    res.append(([o.n for o in pool._used_objs], [o.n for o in pool._free_objs], sorted(closed[w])))
                if op == "tick":
                    clock[0] += rnd.choice([1, 3])
                half = len(res) // 2
                assert res[:half] == res[half:], (trial, step, op, res)
                n += 1
        finally:
            P.time = saved
    return "rewritten ObjectPool == original on %d sequential operations" % n
